"""Deterministic session simulator for reamberPy (see /verif/DESIGN.md)."""
