"""Reference interpreter and printer for StepMania .sm files.

From the format description (StepMania wiki "sm format", MsdFile):
  * `//` starts a comment that runs to the end of the line
  * a file is a sequence of `#TAG:param:param...;` values; text outside is ignored
  * #OFFSET:seconds;   beat 0 is at -OFFSET seconds
  * #BPMS:beat=bpm,beat=bpm,...;   tempo segments, the first at beat 0
  * #NOTES:type:description:difficulty:meter:radar:notedata;
      notedata = measures separated by ','; a measure of R rows spans 4 beats, row r is at beat 4m + 4r/R
      row characters, one per column: 0 nothing, 1 tap, 2 hold head, 4 roll head, 3 hold/roll end,
      M mine, L lift, F fake, K keysound
  * ms(beat) = -OFFSET*1000 + sum over tempo segments of (60000/bpm) * beats spent in the segment
Exact arithmetic (fractions) throughout.  No reamber import."""
from __future__ import annotations

from fractions import Fraction

from .common import RefError

CHART_KEYS = {"dance-single": 4, "dance-double": 8, "dance-solo": 6, "dance-couple": 8, "dance-threepanel": 3,
              "dance-routine": 8, "kb7-single": 7}
SYMBOLS = {"1": "hits", "M": "mines", "L": "lifts", "F": "fakes", "K": "keysounds"}
HEADER_TAGS = {
    "TITLE": "title", "SUBTITLE": "subtitle", "ARTIST": "artist", "TITLETRANSLIT": "title_translit",
    "SUBTITLETRANSLIT": "subtitle_translit", "ARTISTTRANSLIT": "artist_translit", "GENRE": "genre", "CREDIT": "credit",
    "BANNER": "banner", "BACKGROUND": "background", "LYRICSPATH": "lyrics_path", "CDTITLE": "cd_title", "MUSIC": "music",
    "DISPLAYBPM": "display_bpm", "BGCHANGES": "bg_changes", "FGCHANGES": "fg_changes",
}


def _dec(s: str, what: str) -> Fraction:
    s = s.strip()
    try:
        return Fraction(s)
    except (ValueError, ZeroDivisionError):
        raise RefError(f"{what}: {s!r} is not a decimal number")


def strip_comments(text: str) -> str:
    out = []
    for line in text.split("\n"):
        i = line.find("//")
        out.append(line if i < 0 else line[:i])
    return "\n".join(out)


def tokens(text: str) -> list[list[str]]:
    """[[TAG, param, ...], ...]"""
    text = strip_comments(text)
    res = []
    i = 0
    n = len(text)
    while True:
        i = text.find("#", i)
        if i < 0:
            break
        j = text.find(";", i)
        if j < 0:
            raise RefError(f"value starting at character {i} is not terminated by ';': {text[i:i + 40]!r}")
        body = text[i + 1:j]
        if "#" in body and "\n#" in body:
            raise RefError(f"missing ';' before a new tag in {body[:60]!r}")
        res.append(body.split(":"))
        i = j + 1
    return res


def ms_of_beat(beat: Fraction, offset_ms: Fraction, bpms: list[tuple[Fraction, Fraction]]) -> Fraction:
    """bpms sorted by beat, first at beat 0"""
    t = offset_ms
    for k, (b, v) in enumerate(bpms):
        nxt = bpms[k + 1][0] if k + 1 < len(bpms) else None
        if nxt is not None and beat > nxt:
            t += (nxt - b) * Fraction(60000) / v
        else:
            t += (beat - b) * Fraction(60000) / v
            break
    return t


def bpm_at_beat(beat: Fraction, bpms) -> Fraction:
    cur = bpms[0][1]
    for b, v in bpms:
        if b <= beat:
            cur = v
    return cur


def parse(data: bytes) -> dict:
    try:
        text = data.decode("utf-8")
    except UnicodeDecodeError as e:
        raise RefError(f"not UTF-8: {e}")
    if text.startswith("﻿"):
        text = text[1:]
    text = text.replace("\r\n", "\n").replace("\r", "\n")
    # text outside #...; must be blank (comments already removed): catches values that lost their tag
    stripped = strip_comments(text)
    depth_txt = []
    pos = 0
    while True:
        i = stripped.find("#", pos)
        if i < 0:
            depth_txt.append(stripped[pos:])
            break
        depth_txt.append(stripped[pos:i])
        j = stripped.find(";", i)
        if j < 0:
            raise RefError("a value is not terminated by ';'")
        pos = j + 1
    junk = "".join(depth_txt).strip()
    if junk:
        raise RefError(f"text outside any #TAG:...; value: {junk[:60]!r}")
    meta: dict = {}
    offset_s = Fraction(0)
    bpms_raw = None
    stops_raw = None
    charts_raw = []
    for tok in tokens(text):
        tag = tok[0].strip().upper()
        params = tok[1:]
        if tag == "NOTES":
            if len(params) != 6:
                raise RefError(f"#NOTES has {len(params)} fields, expected 6")
            charts_raw.append(params)
            continue
        val = ":".join(params).strip()
        if tag in HEADER_TAGS:
            meta[HEADER_TAGS[tag]] = val
        elif tag == "OFFSET":
            offset_s = _dec(val, "#OFFSET")
        elif tag == "SAMPLESTART":
            meta["sample_start"] = _dec(val, "#SAMPLESTART") * 1000
        elif tag == "SAMPLELENGTH":
            meta["sample_length"] = _dec(val, "#SAMPLELENGTH") * 1000
        elif tag == "SELECTABLE":
            if val.upper() not in ("YES", "NO", "ROULETTE", "ES", "OMES"):
                raise RefError(f"#SELECTABLE:{val!r}")
            meta["selectable"] = val.upper() == "YES"
        elif tag == "BPMS":
            bpms_raw = val
        elif tag == "STOPS":
            stops_raw = val
    if bpms_raw is None:
        raise RefError("no #BPMS")
    bpms = []
    for ent in bpms_raw.split(","):
        ent = ent.strip()
        if not ent:
            continue
        if "=" not in ent:
            raise RefError(f"#BPMS entry {ent!r}")
        b, v = ent.split("=", 1)
        bv = _dec(v, "#BPMS bpm")
        if bv <= 0:
            raise RefError(f"#BPMS bpm {v!r} is not positive")
        bpms.append((_dec(b, "#BPMS beat"), bv))
    if not bpms:
        raise RefError("#BPMS is empty")
    bpms.sort(key=lambda x: x[0])
    if bpms[0][0] != 0:
        raise RefError("the first tempo segment does not start at beat 0")
    stops = []
    if stops_raw:
        for ent in stops_raw.split(","):
            ent = ent.strip()
            if ent:
                b, v = ent.split("=", 1)
                stops.append((_dec(b, "#STOPS beat"), _dec(v, "#STOPS seconds")))
    offset_ms = -offset_s * 1000
    meta["offset"] = offset_ms
    charts = []
    for params in charts_raw:
        ctype = params[0].strip()
        head = dict(chart_type=ctype, description=params[1].strip(), difficulty=params[2].strip())
        try:
            head["difficulty_val"] = int(params[3].strip())
            head["groove_radar"] = tuple(float(x) for x in params[4].strip().split(",")) if params[4].strip() else ()
        except ValueError as e:
            raise RefError(f"#NOTES header: {e}")
        keys = CHART_KEYS.get(ctype)
        lists = {k: [] for k in ("hits", "holds", "rolls", "mines", "lifts", "fakes", "keysounds")}
        open_: dict[int, tuple[str, Fraction]] = {}
        measures = params[5].split(",")
        for m, mtxt in enumerate(measures):
            rows = [ln.strip() for ln in mtxt.split("\n")]
            rows = [ln for ln in rows if ln]
            if not rows:
                if m == len(measures) - 1:
                    continue
                raise RefError(f"chart {len(charts)}: measure {m} has no rows")
            R = len(rows)
            for ri, row in enumerate(rows):
                if keys is not None and len(row) != keys:
                    raise RefError(f"chart {len(charts)} measure {m} row {ri}: {len(row)} columns for a {keys}-key chart: {row!r}")
                beat = Fraction(4 * m) + Fraction(4 * ri, R)
                for col, ch in enumerate(row):
                    if ch == "0":
                        continue
                    if ch in SYMBOLS:
                        lists[SYMBOLS[ch]].append((col, beat))
                    elif ch in "24":
                        if col in open_:
                            raise RefError(f"chart {len(charts)}: hold head inside an open hold in column {col} at beat {beat}")
                        open_[col] = ("holds" if ch == "2" else "rolls", beat)
                    elif ch == "3":
                        if col not in open_:
                            raise RefError(f"chart {len(charts)}: hold end without head in column {col} at beat {beat}")
                        kind, hb = open_.pop(col)
                        lists[kind].append((col, hb, beat))
                    else:
                        raise RefError(f"chart {len(charts)} measure {m} row {ri}: unknown symbol {ch!r}")
        if open_:
            raise RefError(f"chart {len(charts)}: hold heads never closed in columns {sorted(open_)}")
        den = dict(head)
        den["keys"] = keys
        for k, v in lists.items():
            if k in ("holds", "rolls"):
                den[k] = [dict(column=c, beat=hb, end_beat=tb, offset=ms_of_beat(hb, offset_ms, bpms),
                               end=ms_of_beat(tb, offset_ms, bpms)) for c, hb, tb in v]
            else:
                den[k] = [dict(column=c, beat=b, offset=ms_of_beat(b, offset_ms, bpms)) for c, b in v]
        charts.append(den)
    return dict(meta=meta, charts=charts, has_stops=bool(stops), stops_tag=stops_raw is not None,
                bpms=[dict(beat=b, bpm=v, offset=ms_of_beat(b, offset_ms, bpms)) for b, v in bpms], bpm_segments=bpms)


# ---------------------------------------------------------------- printer

def render(doc: dict, fmt: dict | None = None) -> bytes:
    """doc: meta (TAG -> str), offset (decimal str), bpms [[beat str, bpm str]], stops (None | ''),
    charts [{type, desc, diff, meter, radar, measures [[rows]], notes_comments}]"""
    fmt = fmt or {}
    nl = "\r\n" if fmt.get("newline") == "crlf" else "\n"
    L = []
    if fmt.get("lead_comment"):
        L.append("// generated file" + ("; tags: #TITLE:x; #NOTES: none, really" if fmt.get("lead_comment") == "sep" else ""))
    m = doc["meta"]
    order = ["TITLE", "SUBTITLE", "ARTIST", "TITLETRANSLIT", "SUBTITLETRANSLIT", "ARTISTTRANSLIT", "GENRE", "CREDIT", "BANNER",
             "BACKGROUND", "LYRICSPATH", "CDTITLE", "MUSIC"]
    for t in order:
        if t in m:
            L.append(f"#{t}:{m[t]};")
    L.append(f"#OFFSET:{doc['offset']};")
    for t in ("SAMPLESTART", "SAMPLELENGTH", "SELECTABLE", "DISPLAYBPM"):
        if t in m:
            L.append(f"#{t}:{m[t]};")
    sep = "," + ("\n" if fmt.get("bpms_multiline") else "")
    L.append("#BPMS:" + sep.join(f"{b}={v}" for b, v in doc["bpms"]) + ";")
    if doc.get("stops") is not None:
        L.append(f"#STOPS:{doc['stops']};")
    for t in ("BGCHANGES", "FGCHANGES"):
        if t in m:
            L.append(f"#{t}:{m[t]};")
    if fmt.get("blank_after_header", True):
        L.append("")
    for c in doc["charts"]:
        if fmt.get("chart_comment", True):
            L.append(f"//---------------{c['type']} - {c['desc']}----------------")
        ind = "     " if fmt.get("indent", True) else ""
        L.append("#NOTES:")
        L.append(f"{ind}{c['type']}:")
        L.append(f"{ind}{c['desc']}:")
        L.append(f"{ind}{c['diff']}:")
        L.append(f"{ind}{c['meter']}:")
        L.append(f"{ind}{c['radar']}:")
        cs = fmt.get("comma_style", "own")  # the measure separator: on its own line | after the last row | before the next row
        nm = len(c["measures"])
        for mi, rows in enumerate(c["measures"]):
            if mi > 0 and cs == "own":
                L.append("," + (f"  // measure {mi + 1}" if fmt.get("measure_comments") else ""))
            elif fmt.get("measure_comments"):
                L.append(f"  // measure {mi + 1}")
            for ri, row in enumerate(rows):
                tail = " " if fmt.get("row_trailing_space") and ri % 2 else ""
                if fmt.get("row_comments") and ri % 4 == 0:
                    # a comment after a row, on the row's own line; "sep": one that contains the format's separators
                    tail = f"  // beat {ri * 4 // max(len(rows), 1) + 1}" + (" (a, b; c: d #e)" if fmt.get("row_comments") == "sep" else "")
                    if fmt.get("row_comments") == "glued":
                        tail = "//" + tail.strip()[2:].strip()  # no blank before the comment: 0100//beat 2
                pre = "," if (cs == "before_row" and mi > 0 and ri == 0) else ""
                post = "," if (cs == "after_row" and mi < nm - 1 and ri == len(rows) - 1) else ""
                L.append(pre + row + post + tail)
                if fmt.get("blank_rows") and ri % 3 == 1:
                    L.append("  " if fmt.get("space_blank") else "")
        L.append(";")
        L.append("")
    return nl.join(L).encode("utf-8")
