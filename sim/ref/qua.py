"""Reference interpreter and printer for Quaver .qua documents.

A .qua is a YAML mapping (PyYAML safe_load is the trusted YAML layer).  Keys and
types from the Quaver format (Quaver.API Qua.cs):
  top level: AudioFile SongPreviewTime BackgroundFile BannerFile MapId MapSetId Mode Title Artist Source
             Tags Creator DifficultyName Description Genre BPMDoesNotAffectScrollVelocity
             InitialScrollVelocity HasScratchKey EditorLayers CustomAudioSamples SoundEffects
             TimingPoints SliderVelocities HitObjects (+ LegacyLNRendering, Bookmarks, TimingGroups)
  TimingPoints[]:      StartTime (number, omitted = 0), Bpm (number), Signature, Hidden
  SliderVelocities[]:  StartTime (number, omitted = 0), Multiplier (number)
  HitObjects[]:        StartTime (number, omitted = 0), Lane (int >= 1), EndTime (number; present = long note
                       lasting EndTime - StartTime), HitSound, KeySounds (list, omitted = []), EditorLayer
No reamber import."""
from __future__ import annotations

import math

import yaml

from .common import RefError

TOP_KEYS = {
    "AudioFile", "SongPreviewTime", "BackgroundFile", "BannerFile", "MapId", "MapSetId", "Mode", "Title", "Artist", "Source",
    "Tags", "Creator", "DifficultyName", "Description", "Genre", "BPMDoesNotAffectScrollVelocity", "InitialScrollVelocity",
    "HasScratchKey", "EditorLayers", "CustomAudioSamples", "SoundEffects", "TimingPoints", "SliderVelocities", "HitObjects",
    "LegacyLNRendering", "Bookmarks", "TimingGroups",
}
TP_KEYS = {"StartTime", "Bpm", "Signature", "Hidden"}
SV_KEYS = {"StartTime", "Multiplier"}
HO_KEYS = {"StartTime", "Lane", "EndTime", "HitSound", "KeySounds", "EditorLayer", "TimingGroup"}

# top-level key -> in-memory field (strings / scalars the chart is rebuilt from)
META = {
    "AudioFile": "audio_file", "SongPreviewTime": "song_preview_time", "BackgroundFile": "background_file", "BannerFile": "banner_file",
    "Genre": "genre", "BPMDoesNotAffectScrollVelocity": "bpm_does_not_affect_scroll_velocity", "HasScratchKey": "has_scratch_key",
    "MapId": "map_id", "MapSetId": "map_set_id", "Mode": "mode", "Title": "title", "Artist": "artist", "Source": "source", "Tags": "tags",
    "Creator": "creator", "DifficultyName": "difficulty_name", "Description": "description",
}
STR_KEYS = {"AudioFile", "BackgroundFile", "BannerFile", "Genre", "Mode", "Title", "Artist", "Source", "Tags", "Creator", "DifficultyName", "Description"}


def _is_num(v) -> bool:
    return isinstance(v, (int, float)) and not isinstance(v, bool) and not (isinstance(v, float) and (math.isnan(v) or math.isinf(v)))


def parse(data: bytes) -> dict:
    try:
        text = data.decode("utf-8")
    except UnicodeDecodeError as e:
        raise RefError(f"not UTF-8: {e}")
    try:
        doc = yaml.safe_load(text)
    except yaml.YAMLError as e:
        raise RefError(f"not YAML (safe subset): {str(e)[:200]}")
    if not isinstance(doc, dict):
        raise RefError(f"top level is a {type(doc).__name__}, not a mapping")
    bad = [k for k in doc if k not in TOP_KEYS]
    if bad:
        raise RefError(f"top-level keys outside the format: {bad[:5]}")
    for sec in ("TimingPoints", "SliderVelocities", "HitObjects"):
        if sec not in doc:
            raise RefError(f"no {sec} section")
        if not isinstance(doc[sec], list):
            raise RefError(f"{sec} is a {type(doc[sec]).__name__}, not a list")

    def items(sec, allowed):
        for i, it in enumerate(doc[sec]):
            if not isinstance(it, dict):
                raise RefError(f"{sec}[{i}] is not a mapping")
            bad = [k for k in it if k not in allowed]
            if bad:
                raise RefError(f"{sec}[{i}] has keys outside the format: {bad}")
            if "StartTime" in it and not _is_num(it["StartTime"]):
                raise RefError(f"{sec}[{i}].StartTime is {it['StartTime']!r}, not a number")
            yield i, it

    bpms, svs, hits, holds = [], [], [], []
    for i, it in items("TimingPoints", TP_KEYS):
        if "Bpm" in it and not _is_num(it["Bpm"]):
            raise RefError(f"TimingPoints[{i}].Bpm is {it['Bpm']!r}, not a number")
        bpms.append(dict(offset=float(it.get("StartTime", 0)), bpm=float(it["Bpm"]) if "Bpm" in it else None))
    for i, it in items("SliderVelocities", SV_KEYS):
        if "Multiplier" in it and not _is_num(it["Multiplier"]):
            raise RefError(f"SliderVelocities[{i}].Multiplier is {it['Multiplier']!r}, not a number")
        svs.append(dict(offset=float(it.get("StartTime", 0)), multiplier=float(it["Multiplier"]) if "Multiplier" in it else None))
    for i, it in items("HitObjects", HO_KEYS):
        if "Lane" not in it or not isinstance(it["Lane"], int) or isinstance(it["Lane"], bool) or it["Lane"] < 1:
            raise RefError(f"HitObjects[{i}].Lane is {it.get('Lane')!r}, not an integer >= 1")
        ks = it.get("KeySounds", [])
        if ks is None:
            ks = []
        if not isinstance(ks, list):
            raise RefError(f"HitObjects[{i}].KeySounds is {ks!r}, not a list")
        t = float(it.get("StartTime", 0))
        o = dict(offset=t, column=it["Lane"] - 1, keysounds=ks)
        if "EndTime" in it:
            if not _is_num(it["EndTime"]):
                raise RefError(f"HitObjects[{i}].EndTime is {it['EndTime']!r}, not a number")
            o["length"] = float(it["EndTime"]) - t
            holds.append(o)
        else:
            hits.append(o)
    meta = {}
    for k, f in META.items():
        if k in doc:
            v = doc[k]
            if k in STR_KEYS and v is not None and not isinstance(v, str):
                raise RefError(f"{k} is {v!r}, not a string")
            meta[f] = v
    if "tags" in meta:
        meta["tags"] = tuple(t for t in (meta["tags"] or "").split(" ") if t)
    for k in ("EditorLayers", "CustomAudioSamples", "SoundEffects"):
        if k in doc and doc[k] is not None and not isinstance(doc[k], list):
            raise RefError(f"{k} is not a list")
    return dict(hits=hits, holds=holds, bpms=bpms, svs=svs, meta=meta, keys={"Keys4": 4, "Keys7": 7, "Keys8": 8}.get(meta.get("mode"), 4))


def render(doc: dict, fmt: dict | None = None) -> bytes:
    fmt = fmt or {}
    d = {}
    for k, v in doc["meta"].items():
        d[k] = v
    d["TimingPoints"] = [dict(x) for x in doc["tps"]]
    d["SliderVelocities"] = [dict(x) for x in doc["svs"]]
    d["HitObjects"] = [dict(x) for x in doc["objs"]]
    if fmt.get("sections_first"):
        d = {**{k: d[k] for k in ("TimingPoints", "SliderVelocities", "HitObjects")}, **{k: v for k, v in d.items() if k not in ("TimingPoints", "SliderVelocities", "HitObjects")}}
    text = yaml.safe_dump(d, default_flow_style=None if fmt.get("flow") else False, sort_keys=False,
                          allow_unicode=bool(fmt.get("allow_unicode", True)), width=fmt.get("width", 80),
                          line_break="\r\n" if fmt.get("newline") == "crlf" else "\n")
    return text.encode("utf-8")
