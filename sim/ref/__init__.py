"""Reference format interpreters (DESIGN §4.5): small, independent codecs written
from the public format descriptions.  They never import reamber.

Each module offers
  render(doc, fmt) -> bytes      a *printer* with formatting freedom (file generator)
  parse(data)      -> dict       the game-neutral denotation of a file
"""
