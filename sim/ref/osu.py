"""Reference interpreter and printer for the osu! file format v14, mania dialect.

Written from the public format description (osu! wiki ".osu (file format)"):
  * sections in brackets; `key:value` pairs split at the FIRST colon, value trimmed
  * [TimingPoints]  time,beatLength,meter,sampleSet,sampleIndex,volume,uninherited,effects
      uninherited=1: tempo point, bpm = 60000/beatLength
      uninherited=0: scroll velocity, multiplier = -100/beatLength
      effects bit 0 = kiai
  * [HitObjects]    x,y,time,type,hitSound,[endTime:]normalSet:additionSet:index:volume:filename
      type bit 0 (1) = circle, bit 7 (128) = mania hold; column = clamp(floor(x*keys/512), 0, keys-1)
  * [Events]        0,0,"background",x,y      Sample,time,layer,"file",volume
No reamber import."""
from __future__ import annotations

from .common import RefError

SAMPLESETS = {"None": 0, "Normal": 1, "Soft": 2, "Drum": 3}
SAMPLESETS_REV = {v: k for k, v in SAMPLESETS.items()}

# (file key, section, denotation field, kind)
META_KEYS = [
    ("AudioFilename", "General", "audio_file_name", "str"),
    ("AudioLeadIn", "General", "audio_lead_in", "int"),
    ("PreviewTime", "General", "preview_time", "int"),
    ("Countdown", "General", "countdown", "bool"),
    ("SampleSet", "General", "sample_set", "sset"),
    ("StackLeniency", "General", "stack_leniency", "float"),
    ("Mode", "General", "mode", "int"),
    ("LetterboxInBreaks", "General", "letterbox_in_breaks", "bool"),
    ("SpecialStyle", "General", "special_style", "bool"),
    ("WidescreenStoryboard", "General", "widescreen_storyboard", "bool"),
    ("DistanceSpacing", "Editor", "distance_spacing", "float"),
    ("BeatDivisor", "Editor", "beat_divisor", "int"),
    ("GridSize", "Editor", "grid_size", "int"),
    ("TimelineZoom", "Editor", "timeline_zoom", "float"),
    ("Title", "Metadata", "title", "str"),
    ("TitleUnicode", "Metadata", "title_unicode", "str"),
    ("Artist", "Metadata", "artist", "str"),
    ("ArtistUnicode", "Metadata", "artist_unicode", "str"),
    ("Creator", "Metadata", "creator", "str"),
    ("Version", "Metadata", "version", "str"),
    ("Source", "Metadata", "source", "str"),
    ("Tags", "Metadata", "tags", "tags"),
    ("BeatmapID", "Metadata", "beatmap_id", "int"),
    ("BeatmapSetID", "Metadata", "beatmap_set_id", "int"),
    ("HPDrainRate", "Difficulty", "hp_drain_rate", "float"),
    ("CircleSize", "Difficulty", "circle_size", "float"),
    ("OverallDifficulty", "Difficulty", "overall_difficulty", "float"),
    ("ApproachRate", "Difficulty", "approach_rate", "float"),
    ("SliderMultiplier", "Difficulty", "slider_multiplier", "float"),
    ("SliderTickRate", "Difficulty", "slider_tick_rate", "float"),
]
KEY_INFO = {k: (sec, fld, kind) for k, sec, fld, kind in META_KEYS}
SECTION_ORDER = ["General", "Editor", "Metadata", "Difficulty"]


def x_to_column(x: int, keys: int) -> int:
    return max(0, min(keys - 1, (x * keys) // 512))


def column_x_range(col: int, keys: int) -> tuple[int, int]:
    """inclusive range of integer x that belongs to `col`"""
    lo = -((-col * 512) // keys)  # ceil(col*512/keys)
    hi = -((-(col + 1) * 512) // keys) - 1
    return lo, min(hi, 511)


def _num(s: str):
    s = s.strip()
    try:
        return int(s)
    except ValueError:
        return float(s)


def _conv(kind: str, v: str):
    if kind == "str":
        return v.strip()
    if kind == "int":
        return int(_num(v))
    if kind == "float":
        return float(v)
    if kind == "bool":
        return bool(int(v))
    if kind == "sset":
        return SAMPLESETS.get(v.strip(), -1)
    if kind == "tags":
        return tuple(t for t in v.strip().split(" ") if t)
    raise KeyError(kind)


def unquote(s: str) -> str:
    s = s.strip()
    if len(s) >= 2 and s[0] == '"' and s[-1] == '"':
        return s[1:-1]
    return s


def split_outside_quotes(line: str) -> list[str]:
    """event fields are separated by commas; a file name is written in double quotes and may contain commas"""
    out, cur, q = [], [], False
    for ch in line:
        if ch == '"':
            q = not q
            cur.append(ch)
        elif ch == "," and not q:
            out.append("".join(cur))
            cur = []
        else:
            cur.append(ch)
    out.append("".join(cur))
    return out


def parse(data: bytes) -> dict:
    """bytes of a .osu file -> denotation. Raises RefError when the text is not
    well-formed v14 mania."""
    try:
        text = data.decode("utf-8")
    except UnicodeDecodeError as e:
        raise RefError(f"not UTF-8: {e}")
    if text.startswith("﻿"):
        text = text[1:]
    lines = text.replace("\r\n", "\n").replace("\r", "\n").split("\n")
    i = 0
    while i < len(lines) and not lines[i].strip():
        i += 1
    if i >= len(lines) or not lines[i].strip().startswith("osu file format v"):
        raise RefError(f"first line is not the format header: {lines[i] if i < len(lines) else ''!r}")
    section = None
    meta: dict = {}
    tps_raw, objs_raw, events = [], [], []
    seen_sections = []
    for ln, raw in enumerate(lines[i + 1:], i + 2):
        line = raw.strip()
        if not line:
            continue
        if line.startswith("[") and line.endswith("]"):
            section = line[1:-1]
            seen_sections.append(section)
            continue
        if section is None:
            raise RefError(f"line {ln}: content before the first section: {line!r}")
        if line.startswith("//"):
            continue
        if section in ("General", "Editor", "Metadata", "Difficulty"):
            if ":" not in line:
                raise RefError(f"line {ln}: no ':' in key/value line {line!r}")
            k, v = line.split(":", 1)
            k = k.strip()
            if k in KEY_INFO:
                sec, fld, kind = KEY_INFO[k]
                try:
                    meta[fld] = _conv(kind, v)
                except (ValueError, KeyError) as e:
                    raise RefError(f"line {ln}: bad value for {k}: {v!r} ({e})")
        elif section == "Events":
            events.append((ln, line))
        elif section == "TimingPoints":
            tps_raw.append((ln, line))
        elif section == "HitObjects":
            objs_raw.append((ln, line))
        # other sections ([Colours]) carry nothing of the chart
    for need in ("TimingPoints", "HitObjects"):
        if need not in seen_sections:
            raise RefError(f"no [{need}] section")
    if "circle_size" not in meta:
        raise RefError("no CircleSize")
    keys = int(meta["circle_size"])
    if keys < 1:
        raise RefError(f"CircleSize {meta['circle_size']}")
    background = None
    samples = []
    for ln, line in events:
        p = split_outside_quotes(line)
        head = p[0].strip()
        if head in ("0",) and len(p) >= 3 and background is None:
            background = unquote(p[2])
        elif head in ("Sample", "5"):
            if len(p) < 4:
                raise RefError(f"line {ln}: bad Sample event {line!r}")
            try:
                t = float(p[1])
                vol = int(p[4]) if len(p) > 4 else 100
            except ValueError as e:
                raise RefError(f"line {ln}: bad Sample event {line!r} ({e})")
            samples.append(dict(offset=t, sample_file=unquote(p[3]), volume=vol))
    meta["background_file_name"] = background if background is not None else ""
    bpms, svs = [], []
    for ln, line in tps_raw:
        p = [x.strip() for x in line.split(",")]
        if len(p) < 2:
            raise RefError(f"line {ln}: bad timing point {line!r}")
        try:
            t = float(p[0])
            bl = float(p[1])
            meter = int(p[2]) if len(p) > 2 else 4
            sset = int(p[3]) if len(p) > 3 else 0
            sidx = int(p[4]) if len(p) > 4 else 0
            vol = int(p[5]) if len(p) > 5 else 100
            unin = int(p[6]) if len(p) > 6 else 1
            eff = int(p[7]) if len(p) > 7 else 0
        except ValueError as e:
            raise RefError(f"line {ln}: bad timing point {line!r} ({e})")
        if bl == 0 or bl != bl:
            raise RefError(f"line {ln}: beatLength {p[1]} in {line!r}")
        common = dict(offset=t, sample_set=sset, sample_set_index=sidx, volume=vol, kiai=bool(eff & 1))
        if unin == 1:
            bpms.append(dict(common, bpm=60000.0 / bl, metronome=meter))
        elif unin == 0:
            svs.append(dict(common, multiplier=-100.0 / bl))
        else:
            raise RefError(f"line {ln}: uninherited flag {p[6]!r}")
    hits, holds = [], []
    for ln, line in objs_raw:
        p = line.split(",")
        if len(p) < 5:
            raise RefError(f"line {ln}: bad hit object {line!r}")
        try:
            x = int(p[0])
            int(float(p[1]))
            t = float(p[2])
            typ = int(p[3])
            hs = int(p[4])
        except ValueError as e:
            raise RefError(f"line {ln}: bad hit object {line!r} ({e})")
        col = x_to_column(x, keys)
        extra = p[5] if len(p) > 5 else ""
        if len(p) > 6:
            raise RefError(f"line {ln}: too many fields for a mania object {line!r}")
        if typ & 128:
            q = extra.split(":")
            try:
                end = float(q[0])
            except ValueError as e:
                raise RefError(f"line {ln}: hold without endTime {line!r} ({e})")
            q = q[1:]
        elif typ & 1:
            q = extra.split(":") if extra else []
            end = None
        else:
            raise RefError(f"line {ln}: object type {typ} is neither circle nor mania hold")
        try:
            ss = int(q[0]) if len(q) > 0 and q[0] != "" else 0
            as_ = int(q[1]) if len(q) > 1 else 0
            cs = int(q[2]) if len(q) > 2 else 0
            vol = int(q[3]) if len(q) > 3 else 0
        except ValueError as e:
            raise RefError(f"line {ln}: bad hitSample {line!r} ({e})")
        fn = ":".join(q[4:]) if len(q) > 4 else ""
        o = dict(offset=t, column=col, hitsound_set=hs, sample_set=ss, addition_set=as_, custom_set=cs, volume=vol, hitsound_file=fn)
        if end is None:
            hits.append(o)
        else:
            o["length"] = end - t
            holds.append(o)
    return dict(keys=keys, hits=hits, holds=holds, bpms=bpms, svs=svs, samples=samples, meta=meta)


# ---------------------------------------------------------------- printer

def _fmt_num(v) -> str:
    if isinstance(v, bool):
        return str(int(v))
    if isinstance(v, int):
        return str(v)
    f = float(v)
    if f == int(f) and abs(f) < 1e15:
        return str(int(f))
    return repr(f)


def render(doc: dict, fmt: dict | None = None) -> bytes:
    """doc (see gen_osu_doc) -> bytes.  Formatting freedom: newline convention,
    space after ':', blank lines, optional [Colours] section, BOM-less UTF-8."""
    fmt = fmt or {}
    nl = "\r\n" if fmt.get("newline") == "crlf" else "\n"
    sp = {"General": " ", "Editor": " ", "Metadata": "", "Difficulty": ""}
    if fmt.get("space_all"):
        sp = {k: " " for k in sp}
    out = ["osu file format v14", ""]
    m = doc["meta"]
    for sec in SECTION_ORDER:
        out.append(f"[{sec}]")
        for k, s, fld, kind in META_KEYS:
            if s != sec or fld not in m:
                continue
            v = m[fld]
            if kind == "sset":
                v = SAMPLESETS_REV.get(v, "None")
            elif kind == "tags":
                v = " ".join(v)
            elif kind in ("int", "float", "bool"):
                v = _fmt_num(v)
            out.append(f"{k}:{sp[sec]}{v}")
        out.append("")
    out.append("[Events]")
    out.append("//Background and Video events")
    if doc.get("background") is not None:
        out.append(f'0,0,"{doc["background"]}",0,0')
    out.append("//Break Periods")
    out.append("//Storyboard Layer 0 (Background)")
    out.append("//Storyboard Layer 1 (Fail)")
    out.append("//Storyboard Layer 2 (Pass)")
    out.append("//Storyboard Layer 3 (Foreground)")
    if fmt.get("overlay_layer", True):
        out.append("//Storyboard Layer 4 (Overlay)")
    out.append("//Storyboard Sound Samples")
    for s in doc.get("samples", []):
        out.append(f'Sample,{_fmt_num(s["offset"])},0,"{s["sample_file"]}",{s["volume"]}')
    out.append("")
    out.append("[TimingPoints]")
    for tp in doc.get("tps", []):
        out.append(",".join([
            _fmt_num(tp["offset"]), tp["code"], str(tp.get("meter", 4)), str(tp["sample_set"]), str(tp["sample_set_index"]),
            str(tp["volume"]), "1" if tp["kind"] == "bpm" else "0", str(tp["effects"]),
        ]))
    out.append("")
    if fmt.get("colours"):
        out += ["", "[Colours]", "Combo1 : 255,128,0", "Combo2 : 0,202,0", ""]
    out.append("")
    out.append("[HitObjects]")
    for o in doc.get("objs", []):
        tail = f'{o["sample_set"]}:{o["addition_set"]}:{o["custom_set"]}:{o["volume"]}:{o["hitsound_file"]}'
        # "hitSample ... If it is not written, it defaults to 0:0:0:0:" (osu! file format, hit objects)
        omit = bool(fmt.get("omit_default_hitsample")) and tail == "0:0:0:0:"
        if o.get("end") is not None:
            out.append(f'{o["x"]},{o.get("y", 192)},{_fmt_num(o["offset"])},{o.get("type", 128)},{o["hitsound_set"]},{_fmt_num(o["end"])}' + ("" if omit else ":" + tail))
        else:
            out.append(f'{o["x"]},{o.get("y", 192)},{_fmt_num(o["offset"])},{o.get("type", 1)},{o["hitsound_set"]}' + ("" if omit else "," + tail))
    if fmt.get("trailing_newline", True):
        out.append("")
    return nl.join(out).encode("utf-8")
