"""Shared helpers of the reference interpreters: matching of object multisets
under a tolerance, and the comparison result type."""
from __future__ import annotations

import math
from fractions import Fraction


class RefError(Exception):
    """The reference parser rejects the text: it is not well-formed in the dialect."""


def fnum(x) -> float:
    return float(x)


def match(A: list, B: list, ok) -> tuple[list, list]:
    """Maximum bipartite matching between A and B where ok(a, b) says the pair is
    compatible.  Returns (unmatched elements of A, unmatched elements of B).
    Sizes are small (<= a few hundred): simple augmenting paths."""
    n, m = len(A), len(B)
    adj = [[j for j in range(m) if ok(A[i], B[j])] for i in range(n)]
    match_b = [-1] * m

    def aug(i, seen):
        for j in adj[i]:
            if j in seen:
                continue
            seen.add(j)
            if match_b[j] < 0 or aug(match_b[j], seen):
                match_b[j] = i
                return True
        return False

    # cheap greedy pass first (most pairs are unambiguous)
    match_a = [-1] * n
    for i in range(n):
        for j in adj[i]:
            if match_b[j] < 0:
                match_b[j] = i
                match_a[i] = j
                break
    for i in range(n):
        if match_a[i] < 0:
            if aug(i, set()):
                pass
    matched_a = {i for i in match_b if i >= 0}
    ua = [A[i] for i in range(n) if i not in matched_a]
    ub = [B[j] for j in range(m) if match_b[j] < 0]
    return ua, ub


def near(a, b, tol) -> bool:
    try:
        return abs(float(a) - float(b)) <= tol
    except (TypeError, ValueError):
        return False


def lt(a, b, bound) -> bool:
    """|a-b| < bound (strict)"""
    try:
        return abs(float(a) - float(b)) < bound
    except (TypeError, ValueError):
        return False


def ftol(t) -> float:
    """library float vs reference rational (Appendix B): 1e-6 * (1 + |t|) ms"""
    return 1e-6 * (1.0 + abs(float(t)))


def relclose(a, b, rel=1e-9) -> bool:
    a, b = float(a), float(b)
    if a == b:
        return True
    if math.isnan(a) or math.isnan(b) or math.isinf(a) or math.isinf(b):
        return False
    return abs(a - b) <= rel * max(abs(a), abs(b)) + 1e-12


def show(x, n=300) -> str:
    s = repr(x)
    return s if len(s) <= n else s[:n] + "..."


def first_mismatch(what: str, A: list, B: list, ok, la="got", lb="expected") -> str:
    """'' if A and B match as multisets under ok, else a readable message."""
    ua, ub = match(A, B, ok)
    if not ua and not ub:
        return ""
    return f"{what}: {len(A)} {la} vs {len(B)} {lb}; unmatched {la}: {show(ua[:3])}; unmatched {lb}: {show(ub[:3])}"


def frac(x) -> Fraction:
    if isinstance(x, Fraction):
        return x
    if isinstance(x, int):
        return Fraction(x)
    if isinstance(x, str):
        return Fraction(x)
    return Fraction(x)
