"""Reference encoder and interpreter for O2Jam .ojn files.

From the open2jam format notes:
  header, 300 bytes little-endian:
    int32 songid, char[4] signature, float encode_version, int32 genre, float bpm, int16 level[4],
    int32 event_count[3], int32 note_count[3], int32 measure_count[3], int32 package_count[3],
    int16 old_encode_version, int16 old_songid, char[20] old_genre, int32 bmp_size, int32 old_file_version,
    char[64] title, char[32] artist, char[32] noter, char[32] ojm_file, int32 cover_size, int32 time[3],
    int32 note_offset[3], int32 cover_offset
  three difficulty sections of packages:  int32 measure, int16 channel, int16 n, then n events of 4 bytes
    channel 0: measure fraction (float)  - outside the subset
    channel 1: tempo (float, 0 = no event)
    channels 2..8: notes of columns 0..6: int16 value (0 = no event), uint8 volume<<4|pan, uint8 type
                   (0 normal, 2 long-note head, 3 long-note tail)
    channels 9..22: auto-play samples (not notes)
  event i of n sits at measure + i/n;  ms(position) = sum over tempo segments of 240000/bpm * measures,
  starting with the header tempo at measure 0.
Exact arithmetic on the decoded float32 values.  No reamber import."""
from __future__ import annotations

import struct
from fractions import Fraction

from .common import RefError

HEADER_FMT = "<i4sfif4h3i3i3i3ihh20sii64s32s32s32si3i3ii"
assert struct.calcsize(HEADER_FMT) == 300


def _cstr(b: bytes) -> str:
    """CHAR[n]: a NUL-terminated string (the whole field when no NUL is present); what follows the terminator is whatever
    the buffer held before (open2jam reads up to the first 0 byte)"""
    return b.split(b"\x00", 1)[0].decode("ascii", "ignore")


def parse(data: bytes) -> dict:
    if len(data) < 300:
        raise RefError("shorter than the 300-byte header")
    f = struct.unpack(HEADER_FMT, data[:300])
    hd = dict(song_id=f[0], signature=_cstr(f[1]), encode_version=f[2], genre=f[3], bpm=f[4], level=list(f[5:9]),
              event_count=list(f[9:12]), note_count=list(f[12:15]), measure_count=list(f[15:18]), package_count=list(f[18:21]),
              old_encode_version=f[21], old_song_id=f[22], old_genre=f[23], bmp_size=f[24], old_file_version=f[25],
              title=_cstr(f[26]), artist=_cstr(f[27]), creator=_cstr(f[28]), ojm_file=_cstr(f[29]), cover_size=f[30],
              duration=list(f[31:34]), note_offset=list(f[34:37]), cover_offset=f[37])
    if hd["bpm"] <= 0:
        raise RefError(f"header tempo {hd['bpm']}")
    pos = 300
    levels = []
    has_fraction = False
    for lv in range(3):
        notes_raw, tempos = [], []
        for _ in range(hd["package_count"][lv]):
            if pos + 8 > len(data):
                raise RefError("package header beyond the end of the file")
            measure, channel, n = struct.unpack("<ihh", data[pos:pos + 8])
            pos += 8
            if n < 0 or pos + 4 * n > len(data):
                raise RefError("package events beyond the end of the file")
            body = data[pos:pos + 4 * n]
            pos += 4 * n
            for i in range(n):
                ev = body[4 * i:4 * i + 4]
                p = Fraction(measure) + Fraction(i, n)
                if channel == 0:
                    has_fraction = True
                elif channel == 1:
                    v = struct.unpack("<f", ev)[0]
                    if v != 0:
                        tempos.append((p, Fraction(v)))
                elif 2 <= channel <= 8:
                    val, vp, typ = struct.unpack("<hBB", ev)
                    if val == 0:
                        continue
                    notes_raw.append((p, channel - 2, vp >> 4, vp & 15, typ))
        # tempo timeline
        segs = [(Fraction(0), Fraction(hd["bpm"]))]
        for p, v in sorted(tempos, key=lambda x: x[0]):
            if v <= 0:
                raise RefError(f"tempo event {float(v)}")
            segs.append((p, v))

        def ms(p, segs=segs):
            t = Fraction(0)
            for k, (b, v) in enumerate(segs):
                nxt = segs[k + 1][0] if k + 1 < len(segs) else None
                if nxt is not None and p >= nxt:
                    t += (nxt - b) * Fraction(240000) / v
                else:
                    t += (p - b) * Fraction(240000) / v
                    break
            return t

        hits, holds = [], []
        open_: dict[int, tuple] = {}
        for p, col, vol, pan, typ in sorted(notes_raw, key=lambda x: (x[0], x[4] == 2)):
            if typ == 0:
                hits.append(dict(column=col, pos=p, offset=ms(p), volume=vol, pan=pan))
            elif typ == 2:
                if col in open_:
                    raise RefError(f"level {lv}: long-note head inside an open long note in column {col}")
                open_[col] = (p, vol, pan)
            elif typ == 3:
                if col not in open_:
                    raise RefError(f"level {lv}: long-note tail without head in column {col}")
                hp, vol0, pan0 = open_.pop(col)
                holds.append(dict(column=col, pos=hp, end_pos=p, offset=ms(hp), end=ms(p), volume=vol0, pan=pan0))
            else:
                raise RefError(f"note type {typ}")
        if open_:
            raise RefError(f"level {lv}: long notes never closed in columns {sorted(open_)}")
        bpms = [dict(pos=p, bpm=v, offset=ms(p)) for p, v in sorted(tempos, key=lambda x: x[0])]
        levels.append(dict(hits=hits, holds=holds, bpms=bpms, segs=segs))
    return dict(header=hd, levels=levels, has_fraction=has_fraction, keys=7)


def _pad(s, n) -> bytes:
    b = s if isinstance(s, bytes) else s.encode("latin-1")
    return b[:n] + b"\x00" * (n - len(b[:n]))


def render(doc: dict, fmt: dict | None = None) -> bytes:
    """doc: header fields + levels [[ [measure, channel, events] ]]; a note event is [value, volume, pan, type] or 0,
    a tempo event is a float (0 = none)."""
    hd = doc["header"]
    secs = []
    counts_pk, counts_ev, counts_note = [], [], []
    for pkgs in doc["levels"]:
        b = bytearray()
        nev = nnote = 0
        for measure, channel, events in pkgs:
            b += struct.pack("<ihh", measure, channel, len(events))
            for e in events:
                if channel == 1:
                    b += struct.pack("<f", float(e))
                    nev += 1 if e else 0
                elif not e:
                    b += b"\x00\x00\x00\x00"
                else:
                    val, vol, pan, typ = e
                    b += struct.pack("<hBB", val, (vol << 4) | pan, typ)
                    nev += 1
                    nnote += 1 if 2 <= channel <= 8 and typ != 3 else 0
        secs.append(bytes(b))
        counts_pk.append(len(pkgs))
        counts_ev.append(nev)
        counts_note.append(nnote)
    offs = [300, 300 + len(secs[0]), 300 + len(secs[0]) + len(secs[1])]
    cover_off = offs[2] + len(secs[2])
    header = struct.pack(
        HEADER_FMT, hd["song_id"], _pad(b"ojn", 4), hd.get("encode_version", 2.9), hd["genre"], hd["bpm"], *hd["level"],
        *counts_ev, *counts_note, *hd["measure_count"], *counts_pk, hd.get("old_encode_version", 29), hd.get("old_song_id", 0),
        _pad(hd.get("old_genre", b""), 20), hd.get("bmp_size", 0), hd.get("old_file_version", 0), _pad(hd["title"], 64),
        _pad(hd["artist"], 32), _pad(hd["creator"], 32), _pad(hd["ojm_file"], 32), 0, *hd["duration"], *offs, cover_off)
    return header + b"".join(secs)
