"""Reference interpreter and printer for BMS / BME / PMS texts (4/4 subset).

From the BMS command memo (hitkey.nekokan.dyndns.info/cmds.htm):
  * header lines  `#KEY value`  (#TITLE #ARTIST #PLAYLEVEL #BPM n, #BPMxx n, #WAVxx file, #LNOBJ xx, ...)
  * data lines    `#mmmcc:d0d1d2...`  measure mmm, channel cc, a sequence of n two-character objects;
    object i sits at i/n of the measure (4 beats); `00` is empty; several lines for one measure and channel overlay
  * channel 03: tempo change, value = two hex digits; channel 08: tempo change, value = id into the #BPMxx table
  * channel 02: measure length (outside the subset: reported as has_02)
  * #LNOBJ xx: an object xx in a note lane ends a long note whose head is the PRECEDING object of that lane
  * a visible-note object plays #WAV<id>
  * ms(beat) = sum over tempo segments of 60000/bpm * beats, starting with #BPM at beat 0
Channel -> column tables are the library's documented layouts, copied by hand (a change there is a visible diff).
Exact arithmetic.  No reamber import."""
from __future__ import annotations

import re
from fractions import Fraction

from .common import RefError

LAYOUTS = {
    "BMS": {b"11": 0, b"12": 1, b"13": 2, b"14": 3, b"15": 4, b"16": 5, b"17": 6,
            b"21": 7, b"22": 8, b"23": 9, b"24": 10, b"25": 11, b"26": 12, b"27": 13},
    "BME": {b"16": 0, b"11": 1, b"12": 2, b"13": 3, b"14": 4, b"15": 5, b"18": 6, b"19": 7,
            b"21": 8, b"22": 9, b"23": 10, b"24": 11, b"25": 12, b"28": 13, b"29": 14, b"26": 15},
    "PMS": {b"11": 0, b"12": 1, b"13": 2, b"14": 3, b"15": 4, b"22": 5, b"23": 6, b"24": 7, b"25": 8},
    "PMS_BME": {b"11": 0, b"12": 1, b"13": 2, b"14": 3, b"15": 4, b"18": 5, b"19": 6, b"16": 7, b"17": 8,
                b"21": 9, b"22": 10, b"23": 11, b"24": 12, b"25": 13, b"28": 14, b"29": 15, b"26": 16, b"27": 17},
    "PMS_5B": {b"13": 0, b"14": 1, b"15": 2, b"22": 3, b"23": 4},
}
DATA_RE = re.compile(rb"^#(\d{3})([0-9A-Za-z]{2}):(.*)$")
ID_RE = re.compile(rb"^[0-9A-Za-z]{2}$")


def ms_of_beat(beat: Fraction, segs) -> Fraction:
    t = Fraction(0)
    for k, (b, v) in enumerate(segs):
        nxt = segs[k + 1][0] if k + 1 < len(segs) else None
        if nxt is not None and beat > nxt:
            t += (nxt - b) * Fraction(60000) / v
        else:
            t += (beat - b) * Fraction(60000) / v
            break
    return t


def bpm_at(beat: Fraction, segs):
    cur = segs[0][1]
    for b, v in segs:
        if b <= beat:
            cur = v
    return cur


def parse(data: bytes, layout: str = "BME") -> dict:
    lanes = LAYOUTS[layout]
    headers: dict[bytes, bytes] = {}
    raw = []
    for ln, line in enumerate(data.replace(b"\r\n", b"\n").replace(b"\r", b"\n").split(b"\n"), 1):
        line = line.strip()
        if not line:
            continue
        if not line.startswith(b"#"):
            continue  # anything that is not a command is a comment (command memo)
        m = DATA_RE.match(line)
        if m:
            d = m.group(3).strip()
            if m.group(2) != b"02" and (len(d) % 2 or not d or not re.fullmatch(rb"[0-9A-Za-z]+", d)):
                raise RefError(f"line {ln}: malformed object sequence {d[:40]!r}")
            raw.append((int(m.group(1)), m.group(2).upper(), d))
            continue
        parts = line[1:].split(None, 1)
        if not parts:
            raise RefError(f"line {ln}: empty command")
        key = parts[0]
        val = parts[1].strip() if len(parts) > 1 else b""
        headers[key] = val
    up = {k.upper(): v for k, v in headers.items()}
    if b"BPM" not in up:
        raise RefError("no #BPM header")
    try:
        bpm0 = Fraction(up[b"BPM"].decode("ascii"))
    except Exception:
        raise RefError(f"#BPM {up[b'BPM']!r}")
    exbpms, wavs, other = {}, {}, {}
    for k, v in headers.items():
        ku = k.upper()
        if ku.startswith(b"BPM") and len(k) == 5:
            try:
                exbpms[k[3:]] = Fraction(v.decode("ascii"))
            except Exception:
                raise RefError(f"#{k.decode('ascii', 'replace')} {v!r} is not a number")
        elif ku.startswith(b"WAV") and len(k) == 5:
            wavs[k[3:]] = v
        elif ku not in (b"BPM",):
            other[k] = v
    lnobj = up.get(b"LNOBJ", b"")
    has_02 = False
    tempo_events = []  # (beat, bpm)
    objs: dict[int, list] = {}
    for measure, ch, d in raw:
        if ch == b"02":
            has_02 = True
            continue
        n = len(d) // 2
        for i in range(n):
            pair = d[2 * i:2 * i + 2]
            if pair == b"00":
                continue
            beat = Fraction(4) * (measure + Fraction(i, n))
            if ch == b"03":
                try:
                    tempo_events.append((beat, Fraction(int(pair, 16))))
                except ValueError:
                    raise RefError(f"measure {measure} channel 03: {pair!r} is not hexadecimal")
            elif ch == b"08":
                if pair not in exbpms:
                    raise RefError(f"measure {measure} channel 08: #BPM{pair.decode('ascii')} is not defined")
                tempo_events.append((beat, exbpms[pair]))
            elif ch in lanes:
                objs.setdefault(lanes[ch], []).append((beat, pair))
    segs = [(Fraction(0), bpm0)]
    for beat, v in sorted(tempo_events, key=lambda x: x[0]):
        if v <= 0:
            raise RefError(f"tempo {v} at beat {beat}")
        if beat == segs[-1][0]:
            segs[-1] = (beat, v)
        else:
            segs.append((beat, v))
    hits, holds = [], []
    for col, lst in objs.items():
        lst.sort(key=lambda x: x[0])
        for a, b in zip(lst, lst[1:]):
            if a[0] == b[0]:
                raise RefError(f"two objects at one position in column {col} (beat {a[0]})")
        stack = []
        for beat, pair in lst:
            if lnobj and pair == lnobj:
                if not stack:
                    raise RefError(f"#LNOBJ object without a preceding object in column {col} at beat {beat}")
                hb, hp = stack.pop()
                holds.append(dict(column=col, beat=hb, end_beat=beat, offset=ms_of_beat(hb, segs), end=ms_of_beat(beat, segs),
                                  sample=wavs.get(hp, b""), id=hp))
            else:
                stack.append((beat, pair))
        for beat, pair in stack:
            hits.append(dict(column=col, beat=beat, offset=ms_of_beat(beat, segs), sample=wavs.get(pair, b""), id=pair))
    return dict(hits=hits, holds=holds, segs=segs, bpm0=bpm0, exbpms=exbpms, wavs=wavs, lnobj=lnobj, headers=headers, other=other,
                has_02=has_02, title=up.get(b"TITLE", b""), artist=up.get(b"ARTIST", b""), playlevel=up.get(b"PLAYLEVEL", b""),
                tempo_events=sorted(tempo_events, key=lambda x: x[0]), keys=max([h["column"] for h in hits + holds] + [0]) + 1)


# ---------------------------------------------------------------- printer

def render(doc: dict, fmt: dict | None = None) -> bytes:
    """doc: headers [[key bytes, value bytes]], lines [[measure, channel bytes, data bytes]]"""
    fmt = fmt or {}
    nl = b"\n" if fmt.get("newline") == "lf" else b"\r\n"
    L = []
    if fmt.get("lead_comment"):
        L.append(b"*---------------------- HEADER FIELD")
        L.append(b"")
    sep = {"tab": b"\t", "two": b"  "}.get(fmt.get("header_sep"), b" ")  # command and value are separated by blanks
    for k, v in doc["headers"]:
        if fmt.get("lower_commands"):
            # command names are case-insensitive; the two-character id of #WAVxx / #BPMxx is kept as spelled
            k = (k[:3].lower() + k[3:]) if (len(k) == 5 and k[:3].upper() in (b"WAV", b"BPM")) else k.lower()
        L.append(b"#" + k + (sep + v if v != b"" or fmt.get("space_after_empty") else b""))
    L.append(b"")
    if fmt.get("lead_comment"):
        L.append(b"*---------------------- MAIN DATA FIELD")
    L.append(b"")
    for m, ch, d in doc["lines"]:
        L.append(b"#%03d" % m + ch + b":" + d)
        if fmt.get("blank_between") and m % 2:
            L.append(b"")
    L.append(b"")
    if fmt.get("indent_lines"):
        # leading blanks before a command are not part of it (every reader trims the line)
        pad = [b"  ", b"\t", b" "]
        L = [(pad[i % 3] + x if x and (fmt["indent_lines"] == "all" or i % 3 == 0) else x) for i, x in enumerate(L)]
    return nl.join(L)
