"""Named predicates over a minimised failing session, used to match known
findings narrowly (DESIGN §7): a different failure of the same property does
not carry the same features and is therefore still reported."""
from __future__ import annotations

FEATURES = {}


def feature(fn):
    FEATURES[fn.__name__] = fn
    return fn


def features(prop, violation_json, ops, knobs) -> set:
    out = set()
    for name, fn in FEATURES.items():
        try:
            if fn(prop, violation_json, ops, knobs):
                out.add(name)
        except Exception:
            pass
    return out
