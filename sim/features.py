"""Named predicates over a minimised failing session, used to match known
findings narrowly (DESIGN §7): a different failure of the same property does
not carry the same features and is therefore still reported."""
from __future__ import annotations

FEATURES = {}


def feature(fn):
    FEATURES[fn.__name__] = fn
    return fn


def features(prop, violation_json, ops, knobs) -> set:
    out = set()
    for name, fn in FEATURES.items():
        try:
            if fn(prop, violation_json, ops, knobs):
                out.add(name)
        except Exception:
            pass
    return out


@feature
def sm_measure_lcm_rows_gt_384(prop, v, ops, knobs):
    """The mapset being written at the failing step has a measure whose objects need more than 384 rows
    (least common multiple of the writer's row denominators): tagged by the write oracle itself."""
    return "[needs>384rows]" in v.get("message", "")


@feature
def bms_tempo_change_off_snap_grid(prop, v, ops, knobs):
    """The BMS file read at the failing step has a tempo change (channel 03/08) at a position inside a beat that is
    not one of the timing engine's snap fractions (e.g. 5/11 or 7/13 of a measure): tagged by the read oracle."""
    return "[tempo-change-off-snap-grid]" in v.get("message", "")
