"""Hand-written table of list classes and their declared fields.

Written from the format definitions / class documentation, NOT read from
`_props`, so that a change of `_props` in /repo is visible to the checks.
"""
from __future__ import annotations

import importlib

# role: hit | hold | bpm | sv | sample | stop | timed
# (module, list class, item module, item class, role, declared fields)
_T = ["offset"]
_N = ["offset", "column"]
_H = ["offset", "column", "length"]
_B = ["offset", "bpm", "metronome"]
_OSU_N = ["hitsound_set", "sample_set", "addition_set", "custom_set", "volume", "hitsound_file"]
_OSU_TP = ["sample_set", "sample_set_index", "volume", "kiai"]

LISTS = {
    # base
    "TimedList": ("reamber.base.lists.TimedList", "reamber.base.Timed", "Timed", "timed", _T),
    "HitList": ("reamber.base.lists.notes.HitList", "reamber.base.Hit", "Hit", "hit", _N),
    "HoldList": ("reamber.base.lists.notes.HoldList", "reamber.base.Hold", "Hold", "hold", _H),
    "BpmList": ("reamber.base.lists.BpmList", "reamber.base.Bpm", "Bpm", "bpm", _B),
    # osu
    "OsuHitList": ("reamber.osu.lists.notes.OsuHitList", "reamber.osu.OsuHit", "OsuHit", "hit", _N + _OSU_N),
    "OsuHoldList": ("reamber.osu.lists.notes.OsuHoldList", "reamber.osu.OsuHold", "OsuHold", "hold", _H + _OSU_N),
    "OsuBpmList": ("reamber.osu.lists.OsuBpmList", "reamber.osu.OsuBpm", "OsuBpm", "bpm", _B + _OSU_TP),
    "OsuSvList": ("reamber.osu.lists.OsuSvList", "reamber.osu.OsuSv", "OsuSv", "sv", ["offset", "multiplier"] + _OSU_TP),
    "OsuSampleList": ("reamber.osu.lists.OsuSampleList", "reamber.osu.OsuSample", "OsuSample", "sample", ["offset", "sample_file", "volume"]),
    # quaver
    "QuaHitList": ("reamber.quaver.lists.notes.QuaHitList", "reamber.quaver.QuaHit", "QuaHit", "hit", _N + ["keysounds"]),
    "QuaHoldList": ("reamber.quaver.lists.notes.QuaHoldList", "reamber.quaver.QuaHold", "QuaHold", "hold", _H + ["keysounds"]),
    "QuaBpmList": ("reamber.quaver.lists.QuaBpmList", "reamber.quaver.QuaBpm", "QuaBpm", "bpm", _B),
    "QuaSvList": ("reamber.quaver.lists.QuaSvList", "reamber.quaver.QuaSv", "QuaSv", "sv", ["offset", "multiplier"]),
    # stepmania
    "SMHitList": ("reamber.sm.lists.notes.SMHitList", "reamber.sm.SMHit", "SMHit", "hit", _N),
    "SMHoldList": ("reamber.sm.lists.notes.SMHoldList", "reamber.sm.SMHold", "SMHold", "hold", _H),
    "SMRollList": ("reamber.sm.lists.notes.SMRollList", "reamber.sm.SMRoll", "SMRoll", "hold", _H),
    "SMMineList": ("reamber.sm.lists.notes.SMMineList", "reamber.sm.SMMine", "SMMine", "hit", _N),
    "SMLiftList": ("reamber.sm.lists.notes.SMLiftList", "reamber.sm.SMLift", "SMLift", "hit", _N),
    "SMFakeList": ("reamber.sm.lists.notes.SMFakeList", "reamber.sm.SMFake", "SMFake", "hit", _N),
    "SMKeySoundList": ("reamber.sm.lists.notes.SMKeySoundList", "reamber.sm.SMKeySound", "SMKeySound", "hit", _N),
    "SMBpmList": ("reamber.sm.lists.SMBpmList", "reamber.sm.SMBpm", "SMBpm", "bpm", _B),
    "SMStopList": ("reamber.sm.lists.SMStopList", "reamber.sm.SMStop", "SMStop", "stop", ["offset", "length"]),
    # bms
    "BMSHitList": ("reamber.bms.lists.notes.BMSHitList", "reamber.bms.BMSHit", "BMSHit", "hit", _N + ["sample"]),
    "BMSHoldList": ("reamber.bms.lists.notes.BMSHoldList", "reamber.bms.BMSHold", "BMSHold", "hold", _H + ["sample"]),
    "BMSBpmList": ("reamber.bms.lists.BMSBpmList", "reamber.bms.BMSBpm", "BMSBpm", "bpm", _B),
    # o2jam
    "O2JHitList": ("reamber.o2jam.lists.notes.O2JHitList", "reamber.o2jam.O2JHit", "O2JHit", "hit", _N + ["volume", "pan"]),
    "O2JHoldList": ("reamber.o2jam.lists.notes.O2JHoldList", "reamber.o2jam.O2JHold", "O2JHold", "hold", _H + ["volume", "pan"]),
    "O2JBpmList": ("reamber.o2jam.lists.O2JBpmList", "reamber.o2jam.O2JBpm", "O2JBpm", "bpm", _B),
}

# Fields tolerated in addition to the declared ones for lists built FROM ITEMS:
# OsuSv's constructor takes (and stores) `metronome`; the repository's own unit
# test tests/unit_tests/osu/test_sv_list.py::test_df_names pins that column, so
# it is intended behaviour and is not judged (DESIGN §5 C16 S-note).
TOLERATED_EXTRA_FROM_ITEMS = {"OsuSvList": {"metronome"}}

GAMES = {
    "base": dict(hits="HitList", holds="HoldList", bpms="BpmList"),
    "osu": dict(svs="OsuSvList", hits="OsuHitList", holds="OsuHoldList", bpms="OsuBpmList"),
    "qua": dict(svs="QuaSvList", hits="QuaHitList", holds="QuaHoldList", bpms="QuaBpmList"),
    "sm": dict(
        fakes="SMFakeList", lifts="SMLiftList", keysounds="SMKeySoundList", mines="SMMineList",
        rolls="SMRollList", stops="SMStopList", hits="SMHitList", holds="SMHoldList", bpms="SMBpmList",
    ),
    "bms": dict(hits="BMSHitList", holds="BMSHoldList", bpms="BMSBpmList"),
    "o2j": dict(hits="O2JHitList", holds="O2JHoldList", bpms="O2JBpmList"),
}

MAP_CLASS = {
    "base": ("reamber.base.Map", "Map"),
    "osu": ("reamber.osu.OsuMap", "OsuMap"),
    "qua": ("reamber.quaver.QuaMap", "QuaMap"),
    "sm": ("reamber.sm.SMMap", "SMMap"),
    "bms": ("reamber.bms.BMSMap", "BMSMap"),
    "o2j": ("reamber.o2jam.O2JMap", "O2JMap"),
}
MAPSET_CLASS = {
    "base": ("reamber.base.MapSet", "MapSet"),
    "sm": ("reamber.sm.SMMapSet", "SMMapSet"),
    "o2j": ("reamber.o2jam.O2JMapSet", "O2JMapSet"),
}


def _cls(mod: str, name: str):
    m = importlib.import_module(mod)
    c = getattr(m, name)
    if not isinstance(c, type):  # package __init__ rebinding: module object
        c = getattr(c, name)
    return c


_cache: dict = {}


def list_class(name: str):
    if ("L", name) not in _cache:
        mod = LISTS[name][0]
        import sys

        importlib.import_module(mod.rsplit(".", 1)[0])
        m = sys.modules.get(mod) or importlib.import_module(mod)
        _cache[("L", name)] = getattr(m, name) if hasattr(m, name) else _cls(mod.rsplit(".", 1)[0], name)
    return _cache[("L", name)]


def item_class(name: str):
    if ("I", name) not in _cache:
        _, imod, iname, _, _ = LISTS[name]
        import sys

        importlib.import_module(imod.rsplit(".", 1)[0])
        m = sys.modules.get(imod) or importlib.import_module(imod)
        _cache[("I", name)] = getattr(m, iname)
    return _cache[("I", name)]


def map_class(game: str):
    if ("M", game) not in _cache:
        import sys

        mod, name = MAP_CLASS[game]
        importlib.import_module(mod.rsplit(".", 1)[0])
        m = sys.modules.get(mod) or importlib.import_module(mod)
        _cache[("M", game)] = getattr(m, name)
    return _cache[("M", game)]


def mapset_class(game: str):
    if ("S", game) not in _cache:
        import sys

        mod, name = MAPSET_CLASS[game]
        importlib.import_module(mod.rsplit(".", 1)[0])
        m = sys.modules.get(mod) or importlib.import_module(mod)
        _cache[("S", game)] = getattr(m, name)
    return _cache[("S", game)]


def role(name: str) -> str:
    return LISTS[name][3]


def declared(name: str) -> list[str]:
    return list(LISTS[name][4])


def game_of_list(name: str) -> str:
    for g, d in GAMES.items():
        if name in d.values():
            return g
    if name == "OsuSampleList":
        return "osu"
    return "base"


def list_name_of(obj) -> str:
    n = type(obj).__name__
    return n if n in LISTS else "?" + n
