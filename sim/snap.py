"""Snapshots (for frame invariants I1/I2) and the abstraction function alpha
(for per-step refinement I3).  Never uses id()/repr() of objects."""
from __future__ import annotations

import dataclasses
import hashlib

import pandas as pd

from .values import norm


def snap_df(df: pd.DataFrame):
    cols = tuple(str(c) for c in df.columns)
    dtypes = tuple(str(t) for t in df.dtypes)
    labels = tuple(norm(i) for i in df.index.tolist())
    rows = tuple(tuple(norm(x) for x in r) for r in df.itertuples(index=False, name=None))
    return (cols, dtypes, labels, rows)


def snap_list(tl):
    return ("L", type(tl).__name__, snap_df(tl.df))


def snap_item(it):
    s = it.data
    return ("I", type(it).__name__, tuple(str(i) for i in s.index), tuple(norm(x) for x in s.tolist()))


def _snap_meta_value(v):
    from reamber.base.lists.TimedList import TimedList

    if isinstance(v, TimedList):
        return snap_list(v)
    if isinstance(v, dict):
        return ("D",) + tuple(sorted(((norm(k), _snap_meta_value(x)) for k, x in v.items()), key=repr))
    if isinstance(v, (list, tuple)):
        return ("T",) + tuple(_snap_meta_value(x) for x in v)
    return norm(v)


def snap_meta(obj, skip=("objs", "maps")):
    out = []
    if dataclasses.is_dataclass(obj):
        for f in dataclasses.fields(obj):
            if f.name in skip or f.name.startswith("_"):
                continue  # (a field named _x is the object's private business - a cache - not a value of the chart)
            out.append((f.name, _snap_meta_value(getattr(obj, f.name, None))))
    return tuple(out)


def snap_map(m):
    return (
        "M",
        type(m).__name__,
        tuple((k, snap_list(v)) for k, v in m.objs.items()),
        snap_meta(m),
    )


def snap_mapset(ms):
    return ("S", type(ms).__name__, tuple(snap_map(m) for m in ms.maps), snap_meta(ms))


def snap_stacker(s):
    if hasattr(s, "stackers"):
        return ("KS", tuple(snap_stacker(x) for x in s.stackers))
    return ("K", snap_df(s._stacked), tuple(int(i) for i in s._ixs))


def snapshot(kind: str, obj):
    if kind == "list":
        return snap_list(obj)
    if kind == "item":
        return snap_item(obj)
    if kind == "map":
        return snap_map(obj)
    if kind == "mapset":
        return snap_mapset(obj)
    if kind == "stacker":
        return snap_stacker(obj)
    if kind == "value":
        return ("V", norm(obj))
    raise ValueError(kind)


def digest(x) -> str:
    return hashlib.sha256(repr(x).encode("utf-8", "backslashreplace")).hexdigest()[:16]


# ---------------------------------------------------------------- alpha

def rows_of_df(df: pd.DataFrame) -> list[dict]:
    cols = [str(c) for c in df.columns]
    return [dict(zip(cols, (norm(x) for x in r))) for r in df.itertuples(index=False, name=None)]


def alpha_list(tl) -> dict:
    return dict(cls=type(tl).__name__, cols=[str(c) for c in tl.df.columns], rows=rows_of_df(tl.df))


def alpha_item(it) -> dict:
    return dict(cls=type(it).__name__, row={str(k): norm(v) for k, v in it.data.to_dict().items()})


def alpha_meta(obj, skip=("objs", "maps")) -> dict:
    out = {}
    if dataclasses.is_dataclass(obj):
        for f in dataclasses.fields(obj):
            if f.name in skip or f.name.startswith("_"):
                continue
            v = getattr(obj, f.name, None)
            from reamber.base.lists.TimedList import TimedList

            out[f.name] = alpha_list(v) if isinstance(v, TimedList) else norm(v)
    return out


def alpha_map(m) -> dict:
    return dict(cls=type(m).__name__, lists={k: alpha_list(v) for k, v in m.objs.items()}, meta=alpha_meta(m))


def alpha_mapset(ms) -> dict:
    return dict(cls=type(ms).__name__, maps=[alpha_map(m) for m in ms.maps], meta=alpha_meta(ms))


def diff_snap(a, b, path="") -> str:
    """Human-readable first difference between two snapshots."""
    if type(a) is not type(b):
        return f"{path}: {a!r} != {b!r}"
    if isinstance(a, tuple):
        if len(a) != len(b):
            return f"{path}: len {len(a)} != {len(b)}: {str(a)[:200]} != {str(b)[:200]}"
        for i, (x, y) in enumerate(zip(a, b)):
            if x != y:
                return diff_snap(x, y, f"{path}/{i}")
        return ""
    if a != b:
        return f"{path}: {a!r} != {b!r}"
    return ""
