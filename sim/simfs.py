"""SimFS: an in-memory namespace under /simfs/ whose files are served through the
REAL io.Buffered*/TextIOWrapper/codecs stack on top of a STUB raw device that
decides short counts and faults from the op's I/O plan (DESIGN §4.6)."""
from __future__ import annotations

import builtins

_REAL_OPEN = builtins.open
import codecs
import errno
import io
import os
import random
import sys

_REAL_CODECS_OPEN = codecs.open
PREFIX = "/simfs/"

PLATFORMS = {
    "posix": dict(encoding="utf-8", linesep="\n"),
    "win-1252": dict(encoding="cp1252", linesep="\r\n"),
    "win-932": dict(encoding="cp932", linesep="\r\n"),
}
BUFSIZES = [1, 2, 3, 7, 16, 61, 4096, 8192]
SIMPLE_KNOBS = dict(scale=1, tuning_const=None, pipe_t0_zero=True, sm_lcm_cap=None, bms_odd_tempo_subdiv=None, platform="posix", path_type="str", stored_newline="lf", dest_state="absent", text_chunk=8192, faults="off")
MAX_SHORT_CALLS = 200

FILE_PROPS = {"C01", "C02", "C03", "C04", "C05", "C06", "C07", "C08", "C09", "C13", "C14", "C15"}


def draw_knobs(r: random.Random, prop: str, tier: str) -> dict:
    """Per-session (swarm style) environment knobs."""
    # scale: most sessions are small (bugs need few rows); a few are 5-30 times larger so that nothing depends on a
    # size threshold (a fast path, batching or a shortcut that only triggers beyond N rows / measures / tempo points)
    scale = 1 if r.random() < 0.94 else r.choice([5, 12, 30])
    if prop not in FILE_PROPS:
        return dict(scale=scale)
    x = r.random()
    faults = "off" if x < 0.2 else ("legal" if x < 0.7 else "errors")
    return dict(
        platform=r.choice(["posix", "posix", "win-1252", "win-932"]),
        path_type=r.choice(["str", "path"]),
        stored_newline=r.choice(["lf", "crlf"]),
        dest_state=r.choice(["absent", "absent", "empty", "longer", "shorter"]),
        text_chunk=r.choice([8192, 8192, 1, 2, 5, 64]),
        faults=faults,
        # carve-out for the known finding F-C03-measure-row-cap: most sessions keep every measure within 384 rows
        sm_lcm_cap=384 if r.random() < 0.96 else None,
        bms_odd_tempo_subdiv=r.random() < 0.05,
        pipe_t0_zero=r.random() < 0.5,
        tuning_const=r.choice([None, 1, 2, 3, 5, 7, 16, 61]),
        scale=scale,
    )


def draw_io_plan(r: random.Random, knobs: dict, direction: str = "r", p_error: float = 0.45) -> dict:
    """Per file-op plan: buffer size, short-count schedule seed, optional error fault.
    Error faults are placed INSIDE the op: `at` is a fraction of the op's raw calls
    of that direction, resolved by a dry run at execution time."""
    mode = knobs.get("faults", "off")
    if mode == "off":
        return dict(bufsize=8192, chunks=0, fault=None)
    plan = dict(bufsize=r.choice(BUFSIZES), chunks=r.randrange(1, 1 << 30) if r.random() < 0.8 else 0, fault=None)
    if mode == "errors" and r.random() < p_error:
        if direction == "r":
            k = r.choice(["eio_read", "eio_read", "eio_read", "open_error"])
            plan["fault"] = dict(kind=k, at=round(r.random(), 3))
        else:
            k = r.choice(["eio_write", "enospc", "enospc", "close_error", "open_error"])
            plan["fault"] = dict(kind=k, at=round(r.random(), 3))
    return plan


class FaultFired(Exception):
    pass


class IoCtx:
    """State of the raw device during ONE file op."""

    def __init__(self, plan: dict | None, stats: dict):
        plan = plan or {}
        self.bufsize = int(plan.get("bufsize") or 8192)
        ch = plan.get("chunks") or 0
        self.rng = random.Random(ch) if ch else None
        self.fault = plan.get("fault")
        self.raw_calls = 0
        self.n_reads = 0
        self.n_writes = 0
        self.disk_full = False
        self.short_calls = 0
        self.fired = []  # fault kinds that fired
        self.stats = stats
        self.sizes = []  # (kind, asked, served) for the trace
        self.opens = 0

    def _count(self, kind):
        self.stats[kind] = self.stats.get(kind, 0) + 1

    def raw_calls_kind(self, kind: str) -> int:
        return self.n_reads if kind == "eio_read" else self.n_writes

    def want_fault(self, kinds, index=None) -> str | None:
        """Does the planned fault fire now?  `index` is the per-direction raw-call
        index (reads for eio_read, writes for eio_write/enospc); close_error fires at close."""
        f = self.fault
        if not f or f["kind"] not in kinds:
            return None
        if f["kind"] == "enospc" and self.disk_full:
            return "enospc"  # the disk stays full for the rest of the op
        if self.fired:
            return None
        if f["kind"] == "close_error" or f.get("raw_call") == index:
            self.fired.append(f["kind"])
            self._count(f["kind"])
            if f["kind"] == "enospc":
                self.disk_full = True
            return f["kind"]
        return None

    def short(self, n: int, kind: str) -> int:
        if self.rng is None or n <= 1 or self.short_calls >= MAX_SHORT_CALLS:
            return n
        if self.rng.random() < 0.5:
            return n
        self.short_calls += 1
        self._count(kind)
        return self.rng.randint(1, n - 1)


class SimRaw(io.RawIOBase):
    def __init__(self, fs: "SimFS", path: str, reading: bool, writing: bool, append: bool = False):
        super().__init__()
        self.fs = fs
        self.path = path
        self._r = reading
        self._w = writing
        self.pos = len(fs.files[path]) if append else 0
        self.name = path
        self.mode = "rb+" if (reading and writing) else ("wb" if writing else "rb")

    def readable(self):
        return self._r

    def fileno(self):
        # a fake descriptor: os.fsync() on it is routed to the simulated device (see Patched)
        return 1_000_000 + (sum(self.path.encode()) % 100_000)

    def writable(self):
        return self._w

    def seekable(self):
        return True

    def readinto(self, b):
        ctx = self.fs.ctx
        ix = ctx.n_reads
        ctx.n_reads += 1
        ctx.raw_calls += 1
        if ctx.want_fault(("eio_read",), ix):
            ctx.sizes.append(("r", len(b), "EIO"))
            raise OSError(errno.EIO, "simulated I/O error on read", self.path)
        data = self.fs.files[self.path]
        avail = len(data) - self.pos
        n = min(len(b), max(avail, 0))
        if n <= 0:
            ctx.sizes.append(("r", len(b), 0))
            return 0
        n2 = ctx.short(n, "short_read")
        b[:n2] = data[self.pos:self.pos + n2]
        self.pos += n2
        ctx.sizes.append(("r", len(b), n2))
        return n2

    def write(self, b):
        ctx = self.fs.ctx
        b = bytes(b)
        ix = ctx.n_writes
        ctx.n_writes += 1
        ctx.raw_calls += 1
        k = ctx.want_fault(("eio_write", "enospc"), ix)
        if k:
            # POSIX: a write that made progress returns a short count; an error means no
            # byte of THIS call reached the device (earlier calls' bytes stay)
            self.fs.tainted.add(self.path)
            ctx.sizes.append(("w", len(b), k))
            raise OSError(errno.EIO if k == "eio_write" else errno.ENOSPC, f"simulated {k}", self.path)
        n = ctx.short(len(b), "short_write")
        self._store(b[:n])
        ctx.sizes.append(("w", len(b), n))
        return n

    def _store(self, b: bytes):
        data = self.fs.files[self.path]
        if self.pos > len(data):
            data = data + b"\x00" * (self.pos - len(data))
        self.fs.files[self.path] = data[:self.pos] + b + data[self.pos + len(b):]
        self.pos += len(b)

    def seek(self, off, whence=0):
        if whence == 0:
            self.pos = off
        elif whence == 1:
            self.pos += off
        else:
            self.pos = len(self.fs.files[self.path]) + off
        return self.pos

    def tell(self):
        return self.pos

    def truncate(self, size=None):
        size = self.pos if size is None else size
        self.fs.files[self.path] = self.fs.files[self.path][:size]
        return size

    def close(self):
        if self.closed:
            return
        super().close()
        ctx = self.fs.ctx
        if self._w and ctx is not None and ctx.want_fault(("close_error",)):
            self.fs.tainted.add(self.path)
            raise OSError(errno.EIO, "simulated error on close", self.path)


class SimFS:
    def __init__(self, knobs: dict | None = None):
        self.files: dict[str, bytes] = {}
        self.tainted: set[str] = set()
        self.knobs = dict(SIMPLE_KNOBS)
        self.knobs.update(knobs or {})
        self.stats: dict[str, int] = {}
        self.ctx: IoCtx | None = IoCtx(None, self.stats)
        self.open_count = 0
        self.leaked: list = []

    # -- helpers
    @staticmethod
    def is_sim(path) -> bool:
        try:
            p = os.fspath(path)
        except TypeError:
            return False
        if isinstance(p, bytes):
            p = p.decode("utf-8", "replace")
        return p.startswith(PREFIX)

    def begin_op(self, plan):
        self.ctx = IoCtx(plan, self.stats)
        return self.ctx

    def platform(self):
        return PLATFORMS[self.knobs.get("platform", "posix")]

    # -- open()
    def open(self, file, mode="r", buffering=-1, encoding=None, errors=None, newline=None, closefd=True, opener=None):
        if not self.is_sim(file):
            return _REAL_OPEN(file, mode, buffering, encoding, errors, newline, closefd, opener)
        path = os.fspath(file)
        binary = "b" in mode
        m = mode.replace("b", "").replace("t", "")
        plus = "+" in m
        m0 = m.replace("+", "")
        if m0 not in ("r", "w", "a", "x"):
            raise ValueError(f"invalid mode: {mode!r}")
        if binary and encoding is not None:
            raise ValueError("binary mode doesn't take an encoding argument")
        f = self.ctx.fault
        if f and f["kind"] == "open_error" and not self.ctx.fired:
            # EACCES at open(): nothing was truncated, created or read yet
            self.ctx.fired.append("open_error")
            self.ctx._count("open_error")
            raise PermissionError(errno.EACCES, "simulated: permission denied", path)
        exists = path in self.files
        if m0 == "r" and not exists:
            raise FileNotFoundError(errno.ENOENT, "No such file or directory", path)
        if m0 == "x" and exists:
            raise FileExistsError(errno.EEXIST, "File exists", path)
        if m0 in ("w", "x"):
            self.files[path] = b""  # truncation happens at open
            self.tainted.discard(path)
        if m0 == "a" and not exists:
            self.files[path] = b""
        reading = m0 == "r" or plus
        writing = m0 in ("w", "a", "x") or plus
        raw = SimRaw(self, path, reading, writing, append=(m0 == "a"))
        self.open_count += 1
        self.ctx.opens += 1
        if buffering == 0:
            if not binary:
                raise ValueError("can't have unbuffered text I/O")
            return raw
        bs = self.ctx.bufsize if buffering < 0 else max(buffering, 1)
        if reading and writing:
            buf = io.BufferedRandom(raw, bs)
        elif writing:
            buf = io.BufferedWriter(raw, bs)
        else:
            buf = io.BufferedReader(raw, bs)
        if binary:
            return buf
        plat = self.platform()
        enc = encoding if encoding is not None else plat["encoding"]
        nl = newline
        if newline is None and writing and plat["linesep"] != "\n":
            nl = plat["linesep"]  # what CPython does on that platform: '\n' -> os.linesep on write
        tw = io.TextIOWrapper(buf, encoding=enc, errors=errors, newline=nl)
        try:
            tw._CHUNK_SIZE = max(int(self.knobs.get("text_chunk", 8192)), 1)
        except Exception:
            pass
        tw.mode = mode
        return tw

    # -- codecs.open()
    def codecs_open(self, filename, mode="r", encoding=None, errors="strict", buffering=-1):
        if not self.is_sim(filename):
            return _REAL_CODECS_OPEN(filename, mode, encoding, errors, buffering)
        if encoding is not None and "b" not in mode:
            mode = mode + "b"
        f = self.open(filename, mode, buffering)
        if encoding is None:
            return f
        info = codecs.lookup(encoding)
        srw = codecs.StreamReaderWriter(f, info.streamreader, info.streamwriter, errors)
        srw.encoding = encoding
        return srw


# ---------------------------------------------------------------- patching the library's seams

SEAM_MODULES = {
    "reamber.osu.OsuMap": ("open",),
    "reamber.sm.SMMapSet": ("open",),
    "reamber.quaver.QuaMap": ("open",),
    "reamber.bms.BMSMap": ("open", "codecs_open"),
    "reamber.o2jam.O2JMapSet": ("open",),
}


class Patched:
    """Context manager: route file access of the library to a SimFS.

    The five modules' `open` / `codecs_open` globals are the seams the code has today; builtins.open, io.open,
    codecs.open and the handful of os functions an atomic-write or pathlib refactor would use (replace, rename,
    remove, unlink, stat, fsync, path.exists/isfile/getsize) are routed too, so that a behaviour-preserving
    refactor of the file handling does not make a check raise a false alarm.  Paths outside /simfs/ pass through."""

    def __init__(self, fs: SimFS):
        self.fs = fs
        self.saved = []

    def _set(self, obj, name, val):
        had = name in getattr(obj, "__dict__", {}) or hasattr(obj, name)
        self.saved.append((obj, name, had, getattr(obj, name, None)))
        setattr(obj, name, val)

    def __enter__(self):
        import importlib
        import io as _io
        import os as _os
        import stat as _stat

        fs = self.fs
        small = fs.knobs.get("tuning_const")
        for mod, names in SEAM_MODULES.items():
            importlib.import_module(mod.rsplit(".", 1)[0])
            m = sys.modules[mod]
            for n in names:
                had = n in m.__dict__
                self.saved.append((m, n, had, m.__dict__.get(n)))
                setattr(m, n, fs.open if n == "open" else fs.codecs_open)
            if small:
                # "randomise tuning knobs": an upper-case integer constant >= 1024 in a file module is a chunk / block /
                # buffer size; correctness must not depend on it, and generated files are far smaller than 64 KiB
                for n, v in list(m.__dict__.items()):
                    if n.isupper() and type(v) is int and v >= 1024:
                        self.saved.append((m, n, True, v))
                        setattr(m, n, int(small))
                        fs.stats["tuning_const_shrunk"] = fs.stats.get("tuning_const_shrunk", 0) + 1
        real = dict(replace=_os.replace, rename=_os.rename, remove=_os.remove, unlink=_os.unlink, stat=_os.stat, fsync=_os.fsync,
                    exists=_os.path.exists, isfile=_os.path.isfile, getsize=_os.path.getsize)

        def p(x):
            return _os.fspath(x)

        def move(src, dst, *a, **k):
            if fs.is_sim(src) or fs.is_sim(dst):
                if p(src) not in fs.files:
                    raise FileNotFoundError(errno.ENOENT, "No such file or directory", p(src))
                fs.files[p(dst)] = fs.files.pop(p(src))
                (fs.tainted.add if p(src) in fs.tainted else fs.tainted.discard)(p(dst))
                fs.tainted.discard(p(src))
                return None
            return real["replace"](src, dst, *a, **k)

        def remove(path, *a, **k):
            if fs.is_sim(path):
                if p(path) not in fs.files:
                    raise FileNotFoundError(errno.ENOENT, "No such file or directory", p(path))
                del fs.files[p(path)]
                return None
            return real["remove"](path, *a, **k)

        def stat(path, *a, **k):
            if not isinstance(path, int) and fs.is_sim(path):
                if p(path) not in fs.files:
                    raise FileNotFoundError(errno.ENOENT, "No such file or directory", p(path))
                return _os.stat_result((_stat.S_IFREG | 0o644, 0, 0, 1, 0, 0, len(fs.files[p(path)]), 0, 0, 0))
            return real["stat"](path, *a, **k)

        def fsync(fd):
            if isinstance(fd, int) and fd >= 1_000_000:
                return None
            return real["fsync"](fd)

        self._set(builtins, "open", fs.open)
        self._set(_io, "open", fs.open)
        self._set(codecs, "open", fs.codecs_open)
        self._set(_os, "replace", move)
        self._set(_os, "rename", move)
        self._set(_os, "remove", remove)
        self._set(_os, "unlink", remove)
        self._set(_os, "stat", stat)
        self._set(_os, "fsync", fsync)
        self._set(_os.path, "exists", lambda x: (p(x) in fs.files) if fs.is_sim(x) else real["exists"](x))
        self._set(_os.path, "isfile", lambda x: (p(x) in fs.files) if fs.is_sim(x) else real["isfile"](x))
        self._set(_os.path, "getsize", lambda x: len(fs.files[p(x)]) if fs.is_sim(x) and p(x) in fs.files else real["getsize"](x))
        return self.fs

    def __exit__(self, *exc):
        for m, n, had, old in reversed(self.saved):
            if had:
                setattr(m, n, old)
            else:
                try:
                    delattr(m, n)
                except AttributeError:
                    pass
        self.saved = []
        return False
