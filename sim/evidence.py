"""Evidence files, written by the machinery on every run (DESIGN §4.10)."""
from __future__ import annotations

import json
import os

from .engine import VERIF_DIR

COMPONENTS = dict(
    real=["reamber (from /repo working tree)", "pandas", "numpy", "PyYAML", "unidecode",
          "CPython io.BufferedReader/Writer/Random, io.TextIOWrapper, codecs.StreamReaderWriter"],
    stub=["raw device (SimRaw: short counts, EIO/ENOSPC/close errors, EACCES at open)", "file namespace (SimFS)",
          "platform defaults (encoding, linesep)", "the user program (seeded op generator)"],
    reference=["plain-row list/stack/convert/rate model (sim/ops/*)", "format interpreters sim/ref/{osu,sm,bms,qua,ojn}.py"],
)

RULE = (
    "A case is one simulated user session: a seeded sequence of API operations over a pool of named, possibly aliased "
    "handles (and SimFS files), each step checked against the reference model (I3) and the frame invariants (I1/I2). "
    "distinct_nontrivial = number of DISTINCT abstract world signatures reached at some step of a session that executed "
    ">= 1 operation of the property's own kind; a signature hashes the sorted tuple over live handles of (kind, game, "
    "row-count bucket {0,1,2-3,4+}, sorted?, default labels?, equal-offset ties?, alias-class size bucket) plus the "
    "kind of the last op; operations whose subject is not a pooled handle (C15 twin charts, file documents) add their own abstract "
    "component (game, operation, row-delivery histories per list, chart count, row-count buckets). Counted by the machinery "
    "from the executed sessions."
)


def _known(prop):
    try:
        with open(os.path.join(VERIF_DIR, "known_findings.json")) as f:
            return [k for k in json.load(f).get("findings", []) if k.get("property") == prop]
    except Exception:  # noqa
        return []


def write_evidence(prop, tier, seed, recs, tri, batch, wall, known_lines, viol):
    os.makedirs(os.path.join(VERIF_DIR, "evidence"), exist_ok=True)
    sigs, g2, g3 = set(), set(), set()
    probes, opk, faults = {}, {}, {}
    steps = own = io_ok = io_failed = raw_calls = 0
    foreign = {}
    nontrivial_sessions = 0
    for r in recs:
        if "harness_error" in r:
            continue
        steps += r["steps"]
        own += r["own_ops"]
        io_ok += r.get("io_ok", 0)
        io_failed += r.get("io_failed", 0)
        raw_calls += r.get("raw_calls", 0)
        if r["own_ops"]:
            nontrivial_sessions += 1
            sigs.update(r["sigs"])
        g2.update(r["g2h"])
        g3.update(r["g3h"])
        for k, v in r["probes"].items():
            probes[k] = probes.get(k, 0) + v
        for k, v in r["op_counts"].items():
            opk[k] = opk.get(k, 0) + v
        for k, v in r.get("fault_fired", {}).items():
            faults[k] = faults.get(k, 0) + v
        for k in r["foreign"]:
            kk = "/".join(k)
            foreign[kk] = foreign.get(kk, 0) + 1
    knob_hist: dict = {}
    for r in recs:
        for k, v in (r.get("knobs") or {}).items():
            knob_hist.setdefault(k, {})
            knob_hist[k][v] = knob_hist[k].get(v, 0) + 1
    samples = [r["sample_ops"] for r in recs if "sample_ops" in r][:3]
    zero_probes = sorted(k for k, v in probes.items() if v == 0)
    ws = max(batch["wall_sessions"], 1e-6)
    doc = dict(
        property_id=prop,
        tier=tier,
        seed=int(seed),
        level="exploration",
        coverage=dict(
            evaluations=len(recs),
            distinct_nontrivial=len(sigs),
            rule=RULE,
            samples=samples,
            sessions_with_own_op=nontrivial_sessions,
            steps=steps,
            own_kind_ops=own,
            sessions_per_hour=int(len(recs) / ws * 3600),
            seeds=dict(base=int(seed), first=recs[0]["seed"] if recs else None, last=recs[-1]["seed"] if recs else None, count=len(recs)),
            simulated_time_s=0,
            simulated_time_note="reamberPy has no clock, timers or deadlines; logical steps are counted instead",
            fault_fired=faults,
            io_ops_completed=io_ok,
            io_ops_failed=io_failed,
            raw_io_calls=raw_calls,
            op_kind_counts=dict(sorted(opk.items())),
            distinct_op_2grams=len(g2),
            distinct_op_3grams=len(g3),
            probes=dict(sorted(probes.items())),
            environment_knobs_per_session=knob_hist,
            carve_outs=[dict(id=k["id"], carve_out=k.get("carve_out")) for k in _known(prop) if k.get("status") == "known"],
            probes_at_zero=zero_probes,
            components=COMPONENTS,
            foreign_invariant_failures=foreign,
            known_findings_reproduced=[l for l in known_lines if l.startswith("KNOWN-FINDING")],
            known_findings_hit_in_exploration=tri["known_hits"],
            failing_sessions=tri["n_failing"],
            violation_classes=tri["n_classes"],
            violations=[dict(replay=v["path"], invariant=v["v"]["invariant"], op=v["v"]["op"], message=v["v"]["message"][:500]) for v in viol],
        ),
        assumptions=[
            "the reference model / format interpreters under /verif/sim are the trusted oracle",
            "sampling, not enumeration: a clean batch is evidence about the explored sessions only",
            "pandas 2.3.3 / numpy 1.26.4 default (non copy-on-write) semantics, as used by the baseline suite",
        ],
        wall_s=round(wall, 2),
        violations=len(viol),
    )
    path = os.path.join(VERIF_DIR, "evidence", f"{prop}.json")
    with open(path, "w") as f:
        json.dump(doc, f, indent=1, sort_keys=False, default=str)
    return path
