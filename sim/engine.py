"""Session executor: named handles, alias classes, per-step invariants I1/I2/I3,
trace digest.  See DESIGN §4.2-4.4."""
from __future__ import annotations

import hashlib
import json
import os
import sys
import sysconfig
import traceback
import warnings
from dataclasses import dataclass, field

from .snap import snapshot, digest, diff_snap
from .values import jsonable

REPO_DIR = os.path.realpath(os.environ.get("VERIF_REPO", "/repo"))
VERIF_DIR = os.path.dirname(os.path.dirname(os.path.realpath(__file__)))
_STDLIB = os.path.realpath(sysconfig.get_paths()["stdlib"])


FRAME_CLAUSE = {"map.rate": "C13", "convert": "C08",
                # a plain sequence is not changed by sorted(seq), seq[i], iteration, filtering or seq + other: a list that is,
                # no longer answers later operations the way the sequence of its rows would (C16 "after any earlier operations")
                "list.sorted": "C16", "list.filter": "C16", "list.get_int": "C16", "list.get_slice": "C16", "list.get_mask": "C16",
                "list.iter": "C16", "list.append": "C16", "list.query": "C16", "list.deepcopy": "C16", "list.move": "C16"}
WRITE_PROP = {"osu": "C01", "qua": "C06", "sm": "C03", "bms": "C05"}


class HarnessError(Exception):
    """A bug in /verif code (never a VIOLATION, never success)."""


class OpTimeout(BaseException):
    """Raised by the per-op wall-clock watchdog (DESIGN 4.3, non-termination inside the library).  A BaseException so
    that `except Exception` in library code cannot swallow it.  The real clock is read only by this watchdog."""


OP_TIMEOUT_S = float(os.environ.get("VERIF_OP_TIMEOUT", "60"))
HARNESS_TIMEOUT_S = 5 * OP_TIMEOUT_S  # budget of the harness's own code around the library calls of one op
_ARMED = [False]


def _on_alarm(signum, frame):
    import signal

    # re-arm: one op may call into the library more than once (a dry run, then the real call); each call gets the budget
    signal.setitimer(signal.ITIMER_REAL, OP_TIMEOUT_S)
    raise OpTimeout(f"no result after {OP_TIMEOUT_S:.0f} s of wall time")


@dataclass
class Violation:
    prop: str
    inv: str  # invariant id e.g. I1.frame, I3.list.after
    op: str  # op kind of the failing step
    step: int
    msg: str

    def klass(self):
        return (self.prop, self.inv, self.op)

    def category(self) -> str:
        """coarse kind of failure inside a class: the exception type, else the leading words of the message.
        Minimisation keeps it fixed so that shrinking cannot slide from one defect to another of the same class."""
        import re

        m = re.search(r"raised (\w+)", self.msg)
        if m:
            return "raised " + m.group(1)
        head = re.sub(r"\[[^\]]*\]\s*", "", self.msg)  # drop finding tags
        head = re.split(r"[:;(]", head, 1)[0]
        return re.sub(r"[0-9]+", "#", head).strip()[:40]

    def klass4(self):
        return (self.prop, self.inv, self.op, self.category())

    def to_json(self):
        return dict(property=self.prop, invariant=self.inv, op=self.op, step=self.step, message=self.msg[:2000])


@dataclass
class Handle:
    name: str
    kind: str  # list | item | map | mapset | stacker | value
    obj: object
    game: str = "base"
    meta: dict = field(default_factory=dict)


@dataclass
class CallResult:
    ok: bool
    value: object = None
    exc: BaseException | None = None
    where: str = ""  # innermost library frame "file:line func"

    @property
    def exc_name(self):
        return type(self.exc).__name__ if self.exc is not None else ""


def _origin(tb) -> tuple[str, str]:
    """('repo'|'verif'|'other', 'file:line func') of the innermost frame that is
    neither stdlib nor site-packages."""
    frames = traceback.extract_tb(tb)
    for fr in reversed(frames):
        if fr.name == "_on_alarm":
            continue  # the watchdog's handler runs on top of whatever frame was executing
        fn = os.path.realpath(fr.filename)
        if fn.startswith(REPO_DIR + os.sep):
            return "repo", f"{os.path.relpath(fn, REPO_DIR)}:{fr.lineno} {fr.name}"
        if fn.startswith(VERIF_DIR + os.sep):
            return "verif", f"{os.path.relpath(fn, VERIF_DIR)}:{fr.lineno} {fr.name}"
    return "other", ""


def lib_call(fn, *a, **k) -> CallResult:
    """Call into the library. An exception whose innermost non-third-party frame
    is under /repo is a library outcome; anything else is a harness error."""
    import signal

    try:
        if _ARMED[0]:
            signal.setitimer(signal.ITIMER_REAL, OP_TIMEOUT_S)  # each library call gets the whole budget
        with warnings.catch_warnings():
            warnings.simplefilter("ignore")
            try:
                return CallResult(True, fn(*a, **k))
            finally:
                if _ARMED[0]:
                    signal.setitimer(signal.ITIMER_REAL, HARNESS_TIMEOUT_S)  # a slow library call does not starve the oracle
    except (KeyboardInterrupt, SystemExit, MemoryError):
        raise
    except BaseException as e:  # noqa
        where, loc = _origin(e.__traceback__)
        # the outermost verif frame is this function / the lambda: look for repo frames
        frames = traceback.extract_tb(e.__traceback__)
        has_repo = any(os.path.realpath(f.filename).startswith(REPO_DIR + os.sep) for f in frames)
        if where == "repo" or has_repo:
            e.__traceback__ = None
            return CallResult(False, None, e, loc)
        raise HarnessError(f"{type(e).__name__}: {e} at {loc}\n" + "".join(traceback.format_tb(e.__traceback__)[-4:])) from e


@dataclass
class Outcome:
    """What an op kind reports back to the executor."""

    mutates: list | None = None  # names of handles targeted by a mutating op
    new: list = field(default_factory=list)  # (name, kind, obj, alias_with|None, game, meta)
    fails: list = field(default_factory=list)  # (prop, inv, msg)
    note: object = None  # hashable summary of the result for the trace
    probes: list = field(default_factory=list)
    skipped: bool = False
    havoc: list = field(default_factory=list)  # extra handle names whose snapshot is simply refreshed
    drop: list = field(default_factory=list)  # handles removed from the world
    own_kind: bool = True  # counts as "an op of the property's own kind"
    sig: object = None  # extra abstract-state component for ops whose subject is not a pooled handle

    def fail(self, prop, inv, msg):
        self.fails.append((prop, inv, msg))


class World:
    def __init__(self):
        self.h: dict[str, Handle] = {}
        self.parent: dict[str, str] = {}
        self.snaps: dict[str, object] = {}
        self.fs = None  # SimFS, attached by the session when needed
        self.stale: set[str] = set()  # stale stackers

    # ---- union-find
    def find(self, a):
        p = self.parent
        while p[a] != a:
            p[a] = p[p[a]]
            a = p[a]
        return a

    def union(self, a, b):
        ra, rb = self.find(a), self.find(b)
        if ra != rb:
            # deterministic: smaller name becomes root
            if (len(ra), ra) > (len(rb), rb):
                ra, rb = rb, ra
            self.parent[rb] = ra

    def alias_class(self, a) -> set[str]:
        r = self.find(a)
        return {n for n in self.h if self.find(n) == r}

    def add(self, name, kind, obj, alias_with=None, game="base", meta=None):
        if name in self.h:
            raise HarnessError(f"handle {name} already exists")
        self.h[name] = Handle(name, kind, obj, game, dict(meta or {}))
        self.parent[name] = name
        if alias_with:
            for a in alias_with if isinstance(alias_with, (list, tuple, set)) else [alias_with]:
                if a in self.h:
                    self.union(name, a)
        self.snaps[name] = snapshot(kind, obj)

    def remove(self, name):
        # keep the union-find entry (class membership of others is unaffected)
        self.h.pop(name, None)
        self.snaps.pop(name, None)

    def get(self, name) -> Handle | None:
        return self.h.get(name)

    def of_kind(self, *kinds):
        return [h for h in self.h.values() if h.kind in kinds]


class Session:
    """Executes ops one at a time against a World and checks invariants."""

    def __init__(self, seed: int, prop: str, knobs: dict | None = None):
        from . import ops  # late import: registers op kinds

        self.ops = ops.REGISTRY
        self.seed = seed
        self.prop = prop
        self.knobs = dict(knobs or {})
        self.world = World()
        self.step = 0
        self.events: list = []
        self.violations: list[Violation] = []
        self.oplog: list[dict] = []
        self.probes: dict[str, int] = {}
        self.op_counts: dict[str, int] = {}
        self.ngrams2: set = set()
        self.ngrams3: set = set()
        self.sigs: set = set()
        self._last_kinds: list[str] = []
        self.own_ops = 0
        self.fault_fired: dict[str, int] = {}
        self.io_ok = 0
        self.io_failed = 0
        self.raw_calls = 0
        self._next_h = 0
        self._next_o = 0
        self.stop_on_violation = True

    # ---- naming
    def fresh_handle(self) -> str:
        while True:
            n = f"h{self._next_h}"
            self._next_h += 1
            if n not in self.world.h and n not in self.world.parent:
                return n

    def fresh_op_id(self) -> str:
        n = f"o{self._next_o}"
        self._next_o += 1
        return n

    def probe(self, name, k=1):
        self.probes[name] = self.probes.get(name, 0) + k

    # ---- execution
    def exec_op(self, op: dict) -> list[Violation]:
        kind = op["op"]
        spec = self.ops.get(kind)
        if spec is None:
            raise HarnessError(f"unknown op kind {kind}")
        w = self.world
        self.step += 1
        # the library never sees the objects the op log is made of: what is logged (and later replayed) is the op as it was
        # generated, whatever the library does to the values handed to it
        import copy as _copy

        logged = _copy.deepcopy(op)
        op = _copy.deepcopy(op)
        # operands present?
        missing = [n for n in spec.operands(op) if n not in w.h]
        outs = [n for n in spec.outputs(op) if n in w.h]
        if missing or outs:
            self.events.append((self.step, kind, "skip"))
            self.oplog.append(logged)
            return []
        pre = dict(w.snaps)
        import signal
        import threading

        armed = OP_TIMEOUT_S > 0 and threading.current_thread() is threading.main_thread()
        if armed:
            old_handler = signal.signal(signal.SIGALRM, _on_alarm)
            signal.setitimer(signal.ITIMER_REAL, HARNESS_TIMEOUT_S)
            _ARMED[0] = True
        try:
            out: Outcome = spec.run(self, op)
        except OpTimeout as e:
            raise HarnessError(f"op {kind}: harness code did not finish within {HARNESS_TIMEOUT_S:.0f} s (innermost frame is not library code): {e}") from e
        except HarnessError:
            raise
        except RecursionError:
            raise
        except Exception as e:  # harness code failed
            raise HarnessError(
                f"op {kind} raised {type(e).__name__}: {e}\n" + "".join(traceback.format_exc()[-3000:])
            ) from e
        finally:
            if armed:
                _ARMED[0] = False
                signal.setitimer(signal.ITIMER_REAL, 0)
                signal.signal(signal.SIGALRM, old_handler)
        self.oplog.append(logged)
        if out.skipped:
            self.events.append((self.step, kind, "skip2"))
            return []
        vs: list[Violation] = []
        for prop, inv, msg in out.fails:
            vs.append(Violation(prop, inv, kind, self.step, msg))
        # ---- frame invariants over every pre-existing handle
        if out.mutates is None:
            free: set[str] = set()
        else:
            free = set()
            for t in out.mutates:
                if t in w.h or t in w.parent:
                    free |= w.alias_class(t) | {t}
        free |= set(out.havoc)
        operands = set(spec.operands(op))
        for name, before in pre.items():
            hd = w.h.get(name)
            if hd is None or name in out.drop:
                continue
            after = snapshot(hd.kind, hd.obj)
            if name in free:
                w.snaps[name] = after
                continue
            if after != before:
                rel = "operand" if name in operands else (
                    "alias-of-operand" if any(o in w.parent and name in w.parent and w.find(o) == w.find(name) for o in operands) else "unrelated")
                inv = "I1.frame" if out.mutates is None else "I2.frame"
                also = FRAME_CLAUSE.get(kind)
                if kind == "io.write":
                    # "reading what was written" gives the chart the caller holds (C01 / C03 / C05 / C06; the files of C09): a
                    # writer that changes its own operand breaks that for the chart as it is after the call
                    also = op.get("prop") or WRITE_PROP.get(op.get("game"))
                    also = None if also == "C14" else also
                if also and rel in ("operand", "alias-of-operand"):
                    # "the original is untouched" (C13) / "the source is left untouched" (C08) are clauses of those properties too
                    vs.append(Violation(also, inv, kind, self.step,
                                        f"{kind}: the operand {name} ({type(hd.obj).__name__}) was changed by the call: " + diff_snap(before, after)[:600]))
                vs.append(
                    Violation(
                        "C14", inv, kind, self.step,
                        f"{kind}: handle {name} ({hd.kind} {type(hd.obj).__name__}, {rel}) changed: "
                        + diff_snap(before, after)[:600],
                    )
                )
                w.snaps[name] = after
        for name in out.drop:
            w.remove(name)
        for name, k, obj, alias_with, game, meta in out.new:
            w.add(name, k, obj, alias_with, game, meta)
        for p in out.probes:
            self.probe(p)
        # ---- bookkeeping for evidence
        self.op_counts[kind] = self.op_counts.get(kind, 0) + 1
        if out.own_kind:
            self.own_ops += 1
        self._last_kinds.append(kind)
        if len(self._last_kinds) >= 2:
            self.ngrams2.add(tuple(self._last_kinds[-2:]))
        if len(self._last_kinds) >= 3:
            self.ngrams3.add(tuple(self._last_kinds[-3:]))
        self.sigs.add(self.signature(kind, out.sig))
        self.events.append(
            (self.step, kind, digest(out.note), tuple(sorted((n, digest(s)) for n, s in w.snaps.items())),
             tuple(v.klass() for v in vs))
        )
        self.violations.extend(vs)
        return vs

    # ---- abstract world signature (DESIGN §4.10)
    def signature(self, last_kind: str, extra=None):
        w = self.world
        parts = []
        for h in w.h.values():
            if h.kind == "list":
                df = h.obj.df
                n = len(df)
                b = 0 if n == 0 else 1 if n == 1 else 2 if n <= 3 else 3
                try:
                    off = df["offset"].tolist() if "offset" in df.columns else []
                    srt = all(off[i] <= off[i + 1] for i in range(len(off) - 1))
                    ties = len(set(off)) < len(off)
                except Exception:
                    srt, ties = True, False
                dl = list(df.index) == list(range(n))
                parts.append(("l", h.game, b, srt, dl, ties, min(len(w.alias_class(h.name)), 3)))
            elif h.kind in ("map", "mapset", "stacker"):
                parts.append((h.kind[0:2], h.game, min(len(w.alias_class(h.name)), 3), h.name in w.stale))
            else:
                parts.append((h.kind[0:2], h.game))
        return digest((tuple(sorted(parts)), last_kind, extra))

    def trace_digest(self) -> str:
        h = hashlib.sha256()
        h.update(repr((self.seed, self.prop, sorted(self.knobs.items(), key=repr))).encode())
        for e in self.events:
            h.update(repr(e).encode("utf-8", "backslashreplace"))
        return h.hexdigest()[:24]


class OpSpec:
    """One op kind.  `run(sess, op) -> Outcome`."""

    name = "?"
    operand_keys: tuple = ("h",)
    output_keys: tuple = ("out",)

    def operands(self, op):
        out = []
        for k in self.operand_keys:
            v = op.get(k)
            if isinstance(v, str):
                out.append(v)
            elif isinstance(v, list):
                out.extend(x for x in v if isinstance(x, str))
        return out

    def outputs(self, op):
        out = []
        for k in self.output_keys:
            v = op.get(k)
            if isinstance(v, str):
                out.append(v)
            elif isinstance(v, list):
                out.extend(x for x in v if isinstance(x, str))
        return out

    def run(self, sess: Session, op: dict) -> Outcome:  # pragma: no cover
        raise NotImplementedError


def canonical(ops) -> str:
    return json.dumps(jsonable(ops), sort_keys=True, separators=(",", ":"))
