"""Generators of in-dialect file documents for the reference printers (DESIGN §5).

Soundness rule: what is generated lies inside the property's quantifier domain."""
from __future__ import annotations

import random

from .gen_data import size
from .ref import osu as ref_osu

# ---------------------------------------------------------------- osu

OSU_STR = ["Song", "A B", "x", "Title 1", "Caravan", "Escapes!", "q-w_e", "a:b", "Re:Start", "12:30 am", "x: y :z", ":lead", "tail:"]
OSU_UNI = ["Song", "曲", "ｆｏｏ", "Ünïcode", "A:B", "日本語 タイトル", "名前:サブ", "ÀÉÎõü", "한국어", "→♪←", "emoji 🎵 x",
           # separators of str.splitlines() that are ordinary characters of a value in the format
           "星\u2028空", "音\x85楽", "a\x0cb", "Vol.1\u2029Vol.2", "v\x1cw\x1dx\x1ey", "tab\x0bv"]
OSU_FILES = ["", "", "", "a.wav", "hit.ogg", "clap1.wav", "x y.wav", "ドラム.wav", "s\u2028x.wav", "n\x85l.ogg", "f\x0cf.wav"]
BPM_CODES = ["500", "333.333333333333", "250", "400", "375.0", "1000", "461.538461538462", "300", "666.666666666667", "285.714285714286", "200"]
SV_CODES = ["-100", "-50", "-200", "-133.333333333333", "-10", "-1000", "-66.6666666666667", "-125", "-80", "-100.0"]
TIMES_INT = [0, 1, -1, 100, 250, 500, 1000, 1500, 2000, 333, -250, 1000000, 12345, 7, 60000, 9999999, -5000]


def _t_int(r: random.Random) -> int:
    x = r.random()
    if x < 0.5:
        return r.choice(TIMES_INT)
    if x < 0.9:
        return r.randint(-2000, 30000)
    return r.choice([10 ** 7, 5 * 10 ** 6, -10 ** 4, 2 ** 31 - 1])


def _t_tp(r: random.Random):
    x = r.random()
    if x < 0.6:
        return _t_int(r)
    return round(r.uniform(-1000, 20000), r.choice([1, 3, 6]))


def gen_osu_doc(r: random.Random, hi: int = 10, keys: int | None = None) -> dict:
    if keys is None:
        keys = r.choice([4, 4, 7, 7, 1, 2, 3, 5, 6, 8, 9, 10, 10, 11, 12, 13, 14, 15, 16, 17, 18])
    n = max(1, size(r, hi))
    objs = []
    for _ in range(n):
        col = r.randrange(keys)
        lo, hi_x = ref_osu.column_x_range(col, keys)
        x = r.choice([lo, hi_x, r.randint(lo, hi_x), (lo + hi_x) // 2])
        t = _t_int(r)
        o = dict(x=x, y=r.choice([192, 192, 0, 384]), offset=t, hitsound_set=r.choice([0, 0, 0, 2, 4, 8, 6, 10, 12, 14, 15]),
                 sample_set=r.randrange(4), addition_set=r.randrange(4), custom_set=r.choice([0, 0, 1, 2, 17]),
                 volume=r.choice([0, 0, 10, 30, 50, 70, 100]), hitsound_file=r.choice(OSU_FILES))
        if r.random() < 0.3:
            o.update(sample_set=0, addition_set=0, custom_set=0, volume=0, hitsound_file="")  # the default hitSample 0:0:0:0:
        if r.random() < 0.35:
            o["end"] = t + r.choice([0, 1, 50, 100, 250, 500, 1000, 333, 2000, r.randint(1, 5000)])
            o["type"] = r.choice([128, 128, 132])
        else:
            o["type"] = r.choice([1, 1, 5, 21])
        objs.append(o)
    if r.random() < 0.7:
        objs.sort(key=lambda o: o["offset"])
    first = min(o["offset"] for o in objs)
    tps = []
    nb = r.choice([1, 1, 2, 3, 4])
    used = set()
    for i in range(nb):
        t = first - r.choice([0, 0, 100, 1000, 0.5]) if i == 0 else _t_tp(r)
        if t in used:
            continue
        used.add(t)
        code = r.choice(BPM_CODES) if r.random() < 0.8 else repr(60000.0 / round(r.uniform(20, 400), 3))
        tps.append(dict(kind="bpm", offset=t, code=code, meter=r.choice([4, 4, 4, 3, 5, 7]), sample_set=r.randrange(4),
                        sample_set_index=r.choice([0, 0, 1, 2]), volume=r.choice([0, 10, 30, 50, 70, 100]), effects=r.choice([0, 0, 1])))
    # (scaled sessions: long SV lists with several values stacked on one time - the last one listed stays in force)
    for _ in range(r.choice([0, 0, 1, 2, 3, 5]) if hi <= 24 else r.randint(hi // 2, hi * 2)):
        code = r.choice(SV_CODES) if r.random() < 0.8 else repr(-100.0 / round(r.uniform(0.05, 8), 3))
        tps.append(dict(kind="sv", offset=_t_tp(r), code=code, meter=4, sample_set=r.randrange(4),
                        sample_set_index=r.choice([0, 0, 1, 2]), volume=r.choice([0, 10, 30, 50, 70, 100]), effects=r.choice([0, 0, 1])))
    if r.random() < 0.6:
        tps.sort(key=lambda x: x["offset"])
    samples = [dict(offset=_t_int(r), sample_file=r.choice(OSU_FILES[3:]), volume=r.choice([0, 30, 70, 100]))
               for _ in range(r.choice([0, 0, 0, 1, 2, 3]))]
    meta = dict(
        audio_file_name=r.choice(["audio.mp3", "a b.ogg", "曲.mp3", "x:y.mp3"]), audio_lead_in=r.choice([0, 0, 1000, 2500, 100000]),
        preview_time=r.choice([-1, 0, 1000, 12345, 98765, 3600000, -5000]), countdown=r.random() < 0.3, sample_set=r.randrange(4),
        stack_leniency=r.choice([0.7, 0.5, 1, 0.2]), mode=3, letterbox_in_breaks=r.random() < 0.3, special_style=r.random() < 0.3,
        widescreen_storyboard=r.random() < 0.5,
        distance_spacing=r.choice([1, 1.2, 4, 0.8]), beat_divisor=r.choice([4, 8, 3, 12, 16]), grid_size=r.choice([4, 8, 16, 32]),
        timeline_zoom=r.choice([1, 0.3, 2.5, 1.7]),
        title=r.choice(OSU_STR), title_unicode=r.choice(OSU_UNI), artist=r.choice(OSU_STR), artist_unicode=r.choice(OSU_UNI),
        creator=r.choice(OSU_STR + OSU_UNI), version=r.choice(["Easy", "Hard", "x y", "7K", "To:", "A:B:C", "難:易"]),
        source=r.choice(["", "src", "a:b", "出典", "Vol.1\u2029Vol.2"]),
        tags=list(r.choice([[], ["a"], ["a", "b"], ["x:y", "日本"], ["t1", "t2", "t3"], ["al", "be\u2028ta", "ga"], ["n\x85l", "f\x0cf"]])),
        beatmap_id=r.choice([0, 12345, 999999]), beatmap_set_id=r.choice([-1, 5555, 123]),
        hp_drain_rate=r.choice([5, 8, 7.5, 0, 10]), circle_size=keys, overall_difficulty=r.choice([5, 8, 8.5, 0, 10]),
        approach_rate=r.choice([5, 9]), slider_multiplier=r.choice([1.4, 1, 3.6]), slider_tick_rate=r.choice([1, 2, 4, 0.5, 1.5, 2.5]),
    )
    for k in r.sample(["audio_lead_in", "countdown", "stack_leniency", "letterbox_in_breaks", "special_style", "widescreen_storyboard",
                       "source", "beatmap_id", "beatmap_set_id", "distance_spacing", "grid_size", "timeline_zoom", "approach_rate"],
                      r.choice([0, 0, 1, 3])):
        meta.pop(k)  # keys may be absent from a file: the reader keeps its defaults (not judged)
    return dict(keys=keys, meta=meta, background=r.choice(["bg.jpg", "", "背景.png", "b g.jpg", "a,b,c.png", "Tribal Trial, full ver.jpg"]), samples=samples, tps=tps, objs=objs)


def gen_osu_fmt(r: random.Random, knobs: dict) -> dict:
    return dict(newline=knobs.get("stored_newline", "lf"), colours=r.random() < 0.3, space_all=r.random() < 0.2,
                trailing_newline=r.random() < 0.8, overlay_layer=r.random() < 0.8, omit_default_hitsample=r.random() < 0.25)


# ---------------------------------------------------------------- quaver

QUA_STR = ["Song", "A B", "x", "a: b", "# not a comment", "- dash", "[x]", "{y}", "it's", 'say "hi"', " lead", "trail ", "yes", "no", "null",
           "~", "123", "1.5", "true", "曲", "Ünï", "a,b", "k: v: w", "@at", "`tick`", "%pct", "!bang", "*star", "&amp", "|pipe", ">gt", "",
           "multi  space", "emoji 🎵", "0x1F", "1e3", ".inf", "2021-01-01",
           # line breaks inside a value: YAML writes them as blank lines of a quoted scalar / literal block
           "first paragraph\nsecond line\n\nafter an empty line", "ends with a break\n", "two\nlines", "\nleading break", "a\n\n\nb",
           # U+0085 NEXT LINE is a line break to YAML unless the writer escapes it
           "Don\x85t stop", "a\x85\nb"]


def gen_qua_doc(r: random.Random, hi: int = 10) -> dict:
    keys = r.choice([4, 4, 7, 7, 8])
    lanes = r.choice([keys, keys, 8])
    meta = {}
    pool = dict(
        AudioFile=lambda: r.choice(["audio.mp3", "a b.ogg", "曲.mp3"]), SongPreviewTime=lambda: r.choice([0, 1000, 12345, 169955]),
        BackgroundFile=lambda: r.choice(["bg.jpg", "", "背景.png"]), BannerFile=lambda: r.choice(["", "banner.png"]),
        Genre=lambda: r.choice(QUA_STR), BPMDoesNotAffectScrollVelocity=lambda: r.random() < 0.5,
        InitialScrollVelocity=lambda: r.choice([1.0, 0.5, 2.0]), HasScratchKey=lambda: r.random() < 0.5,
        MapId=lambda: r.choice([-1, 123, 99999]), MapSetId=lambda: r.choice([-1, 77]), Mode=lambda: {4: "Keys4", 7: "Keys7", 8: "Keys8"}[keys],
        Title=lambda: r.choice(QUA_STR), Artist=lambda: r.choice(QUA_STR), Source=lambda: r.choice(QUA_STR),
        Tags=lambda: r.choice(["", "a", "a b", "t1 t2 t3", "日本 x"]), Creator=lambda: r.choice(QUA_STR),
        DifficultyName=lambda: r.choice(QUA_STR), Description=lambda: r.choice(QUA_STR),
        EditorLayers=lambda: [], CustomAudioSamples=lambda: [], SoundEffects=lambda: [],
    )
    omit = set(r.sample(["BannerFile", "Genre", "BPMDoesNotAffectScrollVelocity", "InitialScrollVelocity", "HasScratchKey", "Source",
                         "Description", "EditorLayers", "CustomAudioSamples", "SoundEffects", "MapId", "MapSetId", "SongPreviewTime"],
                        r.choice([0, 0, 2, 5])))
    for k, f in pool.items():
        if k not in omit:
            meta[k] = f()

    def t():
        x = r.random()
        if x < 0.15:
            return 0
        if x < 0.7:
            return r.choice(TIMES_INT)
        if x < 0.9:
            return r.randint(-2000, 30000)
        return round(r.uniform(-1000, 20000), r.choice([1, 3]))

    def put_t(d, v):
        if v == 0 and r.random() < 0.7:
            return  # the format omits a zero StartTime
        d["StartTime"] = v

    tps = []
    for _ in range(r.choice([0, 1, 1, 1, 2, 3])):
        d = {}
        put_t(d, t())
        if r.random() < 0.9:
            d["Bpm"] = r.choice([120.0, 175.0, 60.0, 200.5, 87.25, 300, 150])
        tps.append(d)
    svs = []
    for _ in range(r.choice([0, 0, 1, 2, 4]) if hi <= 24 else r.randint(hi // 2, hi * 2)):
        d = {}
        put_t(d, t())
        if r.random() < 0.85:
            # (values whose repr is exponent notation with a whole mantissa - 1e-05 - are strings to YAML 1.1 unless written 1.0e-05)
            d["Multiplier"] = r.choice([1.0, 0.5, 2.0, 1.01999998, 4.54000664, 0.325713784, -1.0, 10, 0.1, 0, 0.0, 1e-05, 3e-07, 1e16, 2.5e-06])
        svs.append(d)
    shape = r.choice(["mixed", "mixed", "mixed", "hits_only", "holds_only", "empty"])
    n = 0 if shape == "empty" else max(1, size(r, hi))
    objs = []
    for _ in range(n):
        d = {}
        st = t()
        put_t(d, st)
        d["Lane"] = r.randint(1, lanes)
        hold = shape == "holds_only" or (shape == "mixed" and r.random() < 0.35)
        if hold:
            d["EndTime"] = max(int(st), 0) + r.choice([1, 50, 100, 250, 500, 1000, 333, 2000, r.randint(1, 5000)])
        if r.random() < 0.6:
            d["KeySounds"] = r.choice([[], [], [dict(Sample=1, Volume=100)], [dict(Sample=2, Volume=50), dict(Sample=3, Volume=80)],
                                       [dict(Sample=2, Volume=100.5), dict(Sample=3, Volume=150)], [dict(Sample=1, Volume=-5)]])
        objs.append(d)
    return dict(meta=meta, tps=tps, svs=svs, objs=objs)


def gen_qua_fmt(r: random.Random, knobs: dict) -> dict:
    return dict(newline=knobs.get("stored_newline", "lf"), allow_unicode=r.random() < 0.7, flow=r.random() < 0.25,
                width=r.choice([80, 80, 20, 1000]), sections_first=r.random() < 0.2)


# ---------------------------------------------------------------- stepmania (text first, C02)

SM_STR = ["Song", "A B", "x", "Title 1", "Caravan", "Escapes!", "q-w_e", "曲", "Ünï code", "a.b", "(x)", "[y]", "100%", "a=b", "a,b", ""]
SM_TYPES = [("dance-single", 4), ("dance-single", 4), ("dance-double", 8), ("dance-solo", 6), ("dance-threepanel", 3), ("kb7-single", 7),
            ("dance-couple", 8), ("dance-routine", 8)]
SM_ROWS = [4, 4, 8, 8, 12, 16, 16, 24, 32, 48, 64, 96, 192, 20, 28, 36]
SM_BPM_STR = ["120.000", "60.000", "90.000", "150.000", "173.500", "180.000", "200.000", "240.000", "87.250", "300.000", "30.000", "128", "99.999"]
SM_DIFFS = ["Beginner", "Easy", "Medium", "Hard", "Challenge", "Edit"]


def _mcap(hi: int, base: int) -> int:
    """measure-count cap: `base` for ordinary sessions, more for scaled-up ones"""
    return base if hi <= 24 else min(hi // 4, 60)


def gen_sm_notes(r: random.Random, keys: int, n_measures: int, density=0.25, symbols=None, last_col=False) -> list[list[str]]:
    """measures of rows with well-paired hold/roll heads and ends"""
    open_: set[int] = set()
    measures = []
    for m in range(n_measures):
        R = r.choice(SM_ROWS[:13] if last_col else SM_ROWS)
        if R > 48 and r.random() < 0.5:
            R = r.choice([4, 8, 16])
        p = density * min(1.0, 8.0 / R) * r.choice([0.5, 1, 2])
        rows = []
        for ri in range(R):
            row = []
            for c in range(keys):
                ch = "0"
                if c in open_:
                    if r.random() < max(p, 0.15):
                        ch = "3"
                        open_.discard(c)
                elif r.random() < p:
                    ch = r.choice(symbols or ["1", "1", "1", "1", "2", "2", "4", "M", "L", "F", "K"])
                    if ch in "24":
                        open_.add(c)
                row.append(ch)
            rows.append("".join(row))
        measures.append(rows)
    if open_:
        rows = ["".join("3" if c in open_ else "0" for c in range(keys))] + ["0" * keys] * 3
        measures.append(rows)
    if last_col and not any(row[keys - 1] != "0" for rows in measures for row in rows):
        measures.append(["0" * (keys - 1) + "1"] + ["0" * keys] * 3)
    return measures


def gen_sm_doc(r: random.Random, hi: int = 4, pipeline: dict | None = None) -> dict:
    """pipeline (C09 sources): {keys: allowed key counts, offset0: bool} -> taps/holds only, tempo changes on measure lines"""
    n_charts = r.choice([1, 1, 2, 3, 4])
    n_measures = r.randint(1, max(2, min(_mcap(hi, 6), hi)))
    nb = r.choice([1, 1, 2, 3, 4, 6])
    beats = {0}
    if pipeline:
        nb = min(nb, n_measures + 1)
    tries = 0
    while len(beats) < nb and tries < 200:
        tries += 1
        x = r.random()
        if x < 0.5 or pipeline:
            beats.add(4 * r.randint(0, n_measures))  # measure line
        else:
            beats.add(r.randint(0, 4 * n_measures * 8) / 8)  # 1/8-beat grid: exact in three decimals (subset of the 1/48 grid)
    bpms = [[f"{b:.3f}", r.choice(SM_BPM_STR)] for b in sorted(beats)]
    if not pipeline and r.random() < 0.1:
        # two (or three) tempo values listed on one beat: the last one listed governs what follows
        i = r.randrange(len(bpms))
        for _ in range(r.choice([1, 1, 2])):
            bpms.insert(i + 1, [bpms[i][0], r.choice([v for v in SM_BPM_STR if v != bpms[i][1]])])
    elif r.random() < 0.3:
        if r.random() < 0.5:
            r.shuffle(bpms)  # the entry of beat 0 need not be listed first
        else:
            r.shuffle(bpms[1:])
    meta = dict(TITLE=r.choice(SM_STR), SUBTITLE=r.choice(SM_STR), ARTIST=r.choice(SM_STR), TITLETRANSLIT=r.choice(["", "tt"]),
                SUBTITLETRANSLIT="", ARTISTTRANSLIT=r.choice(["", "at"]), GENRE=r.choice(["", "g"]), CREDIT=r.choice(SM_STR),
                BANNER=r.choice(["", "bn.png"]), BACKGROUND=r.choice(["", "bg.jpg", "背景.png"]), LYRICSPATH="", CDTITLE="",
                MUSIC=r.choice(["audio.mp3", "a b.ogg"]), SAMPLESTART=r.choice(["0.000", "30.500", "12.345", "-1.000", "3600.000", "0", "7"]),
                SAMPLELENGTH=r.choice(["10.000", "12.000", "0.000", "0.001", "600"]), SELECTABLE=r.choice(["YES", "YES", "NO"]),
                DISPLAYBPM=r.choice(["", "120.000", "*", "100.000=200.000"[:7]]), BGCHANGES="", FGCHANGES="")
    for k in r.sample(["SUBTITLE", "TITLETRANSLIT", "SUBTITLETRANSLIT", "ARTISTTRANSLIT", "GENRE", "BANNER", "LYRICSPATH", "CDTITLE",
                       "DISPLAYBPM", "BGCHANGES", "FGCHANGES", "SAMPLESTART", "SAMPLELENGTH", "SELECTABLE"], r.choice([0, 0, 2, 6])):
        meta.pop(k)
    charts = []
    for _ in range(n_charts):
        ty, keys = r.choice(SM_TYPES)
        if pipeline:
            ty, keys = r.choice([(t, k) for t, k in SM_TYPES if k in pipeline["keys"] and t in ("dance-single", "dance-double", "dance-solo", "dance-threepanel", "kb7-single", "dance-couple", "dance-routine")])
        charts.append(dict(type=ty, desc=r.choice(["", "d", "me", "K. Ward"]), diff=r.choice(SM_DIFFS), meter=r.choice([1, 5, 12, 20]),
                           radar=r.choice(["0,0,0,0,0", "0.5,0.25,0,1,0.125", "0.000,0.000,0.000,0.000,0.000"]),
                           measures=gen_sm_notes(r, keys, n_measures, symbols=["1", "1", "1", "2"] if pipeline else None, last_col=bool(pipeline))))
    off = r.choice(["0.000", "-0.250", "0.100", "1.234", "-12.500", "0"])
    if pipeline and pipeline.get("offset0"):
        off = "0.000"
    return dict(meta=meta, offset=off, bpms=bpms, stops=r.choice([None, None, ""]), charts=charts)


def gen_sm_fmt(r: random.Random, knobs: dict) -> dict:
    return dict(newline=knobs.get("stored_newline", "lf"), lead_comment=r.choice([False, False, True, "sep"]), bpms_multiline=r.random() < 0.4,
                row_comments=r.choice([False, False, False, True, "sep", "glued"]), comma_style=r.choice(["own", "own", "own", "after_row", "before_row"]),
                blank_after_header=r.random() < 0.8, chart_comment=r.random() < 0.8, indent=r.random() < 0.8,
                measure_comments=r.random() < 0.5, blank_rows=r.random() < 0.3, space_blank=r.random() < 0.3,
                row_trailing_space=r.random() < 0.15)


# ---------------------------------------------------------------- on-grid charts in beat space (C03, C05, C09 sources)

from fractions import Fraction  # noqa: E402

GRID_DIVS = (1, 2, 3, 4, 5, 6, 7, 8, 9, 12, 16, 32, 64, 96)
GRID_BPMS = [60.0, 90.0, 100.0, 120.0, 150.0, 173.5, 180.0, 200.0, 240.0, 87.25, 300.0, 30.0, 128.0]


def gen_timeline(r: random.Random, n_measures: int, exact: bool, t0: float = 0.0, nb: int | None = None):
    """[(beat Fraction, bpm float, ms Fraction)] starting at beat 0 / t0 ms"""
    nb = nb if nb is not None else r.choice([1, 1, 2, 3, 4])
    beats = {Fraction(0)}
    tries = 0
    while len(beats) < nb and tries < 50:
        tries += 1
        if exact:
            beats.add(Fraction(4 * r.randint(0, max(1, n_measures - 1))))
        else:
            d = r.choice([1, 2, 3, 4, 8, 16, 6, 12])
            beats.add(Fraction(r.randint(0, 4 * n_measures - 1)) + Fraction(r.randrange(d), d))
    out = []
    ms = Fraction(t0)
    prev = None
    for b in sorted(beats):
        v = r.choice(GRID_BPMS)
        if prev is not None:
            ms += (b - prev[0]) * Fraction(60000) / Fraction(prev[1])
        out.append((b, v, ms))
        prev = (b, v)
    return out


def ms_at(tl, beat: Fraction) -> Fraction:
    cur = tl[0]
    for p in tl:
        if p[0] <= beat:
            cur = p
    return cur[2] + (beat - cur[0]) * Fraction(60000) / Fraction(cur[1])


def gen_positions(r: random.Random, tl, n_measures: int, n: int, divs=GRID_DIVS, per_measure_lcm_cap: int | None = None) -> list[Fraction]:
    """n distinct beat positions whose distance to the ACTIVE tempo point is on the snap grid"""
    out = set()
    tries = 0
    meas_dens: dict[int, set] = {}
    while len(out) < n and tries < 20 * n + 20:
        tries += 1
        cur = r.choice(tl) if r.random() < 0.3 else None
        d = r.choice(divs) if r.random() < 0.5 else r.choice([1, 2, 4, 4, 8, 16, 3])
        whole = r.randint(0, 4 * n_measures - 1)
        pos = Fraction(whole) + Fraction(r.randrange(d), d)
        if cur is not None:
            pos = cur[0] + Fraction(r.randint(0, 7)) + Fraction(r.randrange(d), d)
        if pos >= 4 * n_measures:
            continue
        # distance to the active tempo point must be on the grid
        act = tl[0]
        for p in tl:
            if p[0] <= pos:
                act = p
        rel = pos - act[0]
        frac = rel - (rel.numerator // rel.denominator)
        if frac.denominator not in GRID_DIVS and not any(frac.denominator and dd % frac.denominator == 0 for dd in GRID_DIVS):
            continue
        if per_measure_lcm_cap:
            m = int(pos // 4)
            den = pos.denominator * 4  # the writer's row denominator for this beat
            cand = meas_dens.get(m, set()) | {den}
            l = 1
            import math as _m
            for x in cand:
                l = l * x // _m.gcd(l, x)
            if l > per_measure_lcm_cap:
                continue
            meas_dens[m] = cand
        out.add(pos)
    return sorted(out)


def gen_grid_objects(r: random.Random, tl, keys: int, n_measures: int, hi: int, kinds, min_gap: Fraction = Fraction(0), lcm_cap=None,
                     inside: bool = False):
    """{kind: rows} with per-column non-overlapping objects at grid positions (inside=True: some long notes contain a tap of
    their own column, on a slot of its own)"""
    res = {k: [] for k in kinds}
    span_kinds = [k for k in kinds if k in ("holds", "rolls")]
    point_kinds = [k for k in kinds if k not in ("holds", "rolls")]
    pool = gen_positions(r, tl, n_measures, max(2, size(r, hi) * 2), per_measure_lcm_cap=lcm_cap)
    for c in range(keys):
        if not pool or r.random() < 0.25:
            continue
        k = r.randint(1, max(1, min(len(pool), max(1, hi // 2))))
        ps = sorted(r.sample(pool, k))
        if min_gap:
            kept = []
            for p in ps:
                if not kept or p - kept[-1] >= min_gap:
                    kept.append(p)
            ps = kept
        i = 0
        while i < len(ps):
            t = float(ms_at(tl, ps[i]))
            if inside and span_kinds and i + 2 < len(ps) and r.random() < 0.4:
                t1, t2 = float(ms_at(tl, ps[i + 1])), float(ms_at(tl, ps[i + 2]))
                res[r.choice(span_kinds)].append(dict(offset=t, column=c, length=t2 - t))
                res[point_kinds[0]].append(dict(offset=t1, column=c))
                i += 3
            elif span_kinds and i + 1 < len(ps) and r.random() < 0.35:
                t2 = float(ms_at(tl, ps[i + 1]))
                res[r.choice(span_kinds)].append(dict(offset=t, column=c, length=t2 - t))
                i += 2
            else:
                kind = r.choice(point_kinds) if (len(point_kinds) > 1 and r.random() < 0.3) else point_kinds[0]
                res[kind].append(dict(offset=t, column=c))
                i += 1
    return res


# ---------------------------------------------------------------- BMS (text first, C04)

BMS_LAYOUTS = ["BMS", "BME", "BME", "PMS", "PMS_BME", "PMS_5B"]
BMS_TXT = ["Song", "A B", "x", "Title 1", "cold breath", "曲", "ソース", "表示", "能力 ポップ", "日本語 タイトル", "ｶﾀｶﾅ", "A [ANOTHER]", "〜wave〜"]
BMS_SUBDIV = [1, 2, 3, 4, 4, 6, 8, 8, 12, 16, 16, 24, 32, 48, 64, 96, 192, 5, 7, 9]
ODD_FAMILIES = [[5, 10, 20, 40], [7, 14, 28, 56], [9, 18, 36], [11, 22, 44], [4, 12, 28, 84]]  # slots per measure; lcm <= 84 inside a family
B36 = "0123456789ABCDEFGHIJKLMNOPQRSTUVWXYZ"


def _id36(n: int) -> bytes:
    return (B36[n // 36] + B36[n % 36]).encode("ascii")


def gen_bms_doc(r: random.Random, hi: int = 6, layout: str | None = None, odd_tempo_subdiv: bool = False, pipeline: dict | None = None) -> tuple[dict, str]:
    """pipeline (C09 sources): {keys: allowed key counts} -> columns 0..k-1 of the BME layout, last column used,
    tempo changes at the start of measures only"""
    from .ref.bms import LAYOUTS

    layout = layout or r.choice(BMS_LAYOUTS)
    lanes = list(LAYOUTS[layout].keys())
    if pipeline:
        layout = "BME"
        k = r.choice(sorted(pipeline["keys"]))
        rev = {v: c for c, v in LAYOUTS["BME"].items()}
        lanes = [rev[c] for c in range(k)]
    n_meas = r.randint(1, max(2, min(_mcap(hi, 8), hi)))
    wav_ids = [_id36(i) for i in r.sample(range(1, 200), r.choice([1, 2, 4, 6]))]
    lnobj = None
    if r.random() < 0.6:
        lnobj = r.choice([b"ZZ", b"ZY", _id36(1000)])
        wav_ids = [w for w in wav_ids if w != lnobj]
    headers = []
    enc = lambda s: s.encode("shift_jis")
    headers.append([b"PLAYER", r.choice([b"1", b"3"])])
    headers.append([b"GENRE", enc(r.choice(BMS_TXT))])
    headers.append([b"TITLE", enc(r.choice(BMS_TXT))])
    headers.append([b"ARTIST", enc(r.choice(BMS_TXT))])
    headers.append([b"BPM", r.choice([b"120", b"150", b"173.5", b"60", b"200", b"87.25", b"300"])])
    headers.append([b"PLAYLEVEL", r.choice([b"1", b"12", b"5", b"0"])])
    for k, v in ((b"RANK", b"2"), (b"TOTAL", b"300"), (b"STAGEFILE", enc("背景.png")), (b"SUBTITLE", b"[x]"), (b"DIFFICULTY", b"3"), (b"LNTYPE", b"1")):
        if r.random() < 0.4:
            headers.append([k, v])
    if lnobj:
        headers.append([b"LNOBJ", lnobj])
    ex_ids = [_id36(i) for i in r.sample(range(1, 100), r.choice([0, 1, 2, 3]))]
    ex_vals = {}
    for e in ex_ids:
        v = r.choice(["120", "240.5", "60.25", "333.333", "90", "1000", "45.125"])
        ex_vals[e] = v
        headers.append([b"BPM" + e, v.encode("ascii")])
    for w in wav_ids:
        headers.append([b"WAV" + w, enc(r.choice(["a.wav", "kick.ogg", "snare.wav", "ドラム.wav", "x y.wav"]))])
    if r.random() < 0.5:
        hd, tl = headers[:1], headers[1:]
        r.shuffle(tl)
        headers = hd + tl
    obj_ids = wav_ids + [_id36(i) for i in r.sample(range(200, 400), 2)]  # some ids without a #WAV
    if not lnobj and r.random() < 0.5:
        # no #LNOBJ in the file: the last id of the table is then an ordinary sound like any other
        obj_ids += [b"ZZ", b"ZZ"]
        if r.random() < 0.5:
            headers.append([b"WAVZZ", enc("snd_ZZ.wav")])
    lines = []
    # C09 sources: every measure stays inside one family of subdivisions, so that its rows fit StepMania's 384-row cap:
    # the divisors of 192, or one odd family (fifths, sevenths, ninths, elevenths of a beat and their doublings)
    fam = [r.choice([BMS_SUBDIV[:17]] * 6 + ODD_FAMILIES) for _ in range(n_meas)]
    # notes: per lane a walk over positions
    for ch in lanes:
        if r.random() < 0.35 and not (pipeline and ch == lanes[-1]):
            continue
        open_head = False
        for m in range(n_meas):
            if r.random() < 0.4 and not (pipeline and ch == lanes[-1] and m == 0):
                continue
            n_lines = r.choice([1, 1, 1, 2])
            used: set = set()
            for _ in range(n_lines):
                n = r.choice(fam[m] if pipeline else BMS_SUBDIV)
                if not pipeline and r.random() < 0.06:
                    n = r.choice([384, 768, 401, 1000])  # lines finer than 1/100 of a beat (positions stay exact fractions)
                seq = [b"00"] * n
                k = r.randint(1, max(1, min(n, 3)))
                idxs = sorted(r.sample(range(n), min(k, n)))
                for i in idxs:
                    pos = Fraction(i, n)
                    if pos in used:
                        continue
                    used.add(pos)
                    seq[i] = r.choice(obj_ids)
                lines.append([m, ch, seq, n])
    # long notes: turn some objects into LNOBJ ends (in time order per lane: an end needs a preceding plain object)
    if lnobj:
        by_lane: dict = {}
        for li, (m, ch, seq, n) in enumerate(lines):
            for i, v in enumerate(seq):
                if v != b"00":
                    by_lane.setdefault(ch, []).append((Fraction(m) + Fraction(i, n), li, i))
        for ch, lst in by_lane.items():
            lst.sort()
            prev_plain = False
            for pos, li, i in lst:
                if prev_plain and r.random() < 0.3:
                    lines[li][2][i] = lnobj
                    prev_plain = False
                else:
                    prev_plain = True
    # tempo changes
    tempo_divs = [1, 2, 4, 4, 8, 16, 3, 6, 12] + ([5, 7, 9, 11, 13] if odd_tempo_subdiv else [])
    for _ in range(r.choice([0, 0, 1, 2, 3])):
        m = r.randrange(n_meas)
        n = r.choice(tempo_divs)
        seq = [b"00"] * n
        i = r.randrange(n)
        if pipeline:
            i = 0
        if ex_ids and r.random() < 0.5:
            seq[i] = r.choice(ex_ids)
            lines.append([m, b"08", seq, n])
        else:
            seq[i] = ("%02X" % r.choice([60, 90, 120, 150, 180, 200, 240, 255, 30, 1])).encode("ascii")
            lines.append([m, b"03", seq, n])
    if not pipeline and r.random() < 0.08:
        # a "warp": one row of a 192-row line at an enormous tempo, the ordinary tempo back on the next row (a segment far
        # shorter than a microsecond that still consumes its share of the measure)
        wid, nid = _id36(1200 + r.randrange(40)), _id36(1250 + r.randrange(40))
        headers.append([b"BPM" + wid, b"1750175"])
        headers.append([b"BPM" + nid, r.choice([b"150", b"120", b"87.25"])])
        seq = [b"00"] * 192
        i = r.randrange(0, 190)
        seq[i], seq[i + 1] = wid, nid
        lines.append([r.randrange(n_meas), b"08", seq, 192])
    # dedupe tempo positions (two changes at one position are ambiguous)
    seen = set()
    keep = []
    for ln in lines:
        if ln[1] in (b"03", b"08"):
            i = next(j for j, v in enumerate(ln[2]) if v != b"00")
            pos = Fraction(ln[0]) + Fraction(i, ln[3])
            if pos in seen:
                continue
            seen.add(pos)
        keep.append(ln)
    lines = keep
    # ignored channels
    for _ in range(r.choice([0, 1, 2])):
        lines.append([r.randrange(n_meas), r.choice([b"01", b"01", b"04", b"07"]), [r.choice(obj_ids), b"00"], 2])
    order = r.choice(["sorted", "sorted", "shuffled", "by_channel"])
    if order == "sorted":
        lines.sort(key=lambda x: (x[0], x[1]))
    elif order == "by_channel":
        lines.sort(key=lambda x: (x[1], x[0]))
    else:
        r.shuffle(lines)
    if r.random() < 0.2:
        # object ids are two characters 0-9 A-Z a-z, matched as spelled: spell some (or all) letters in lower case,
        # the same way in the #WAVxx / #BPMxx / #LNOBJ headers and in the data lines
        every = r.random() < 0.5
        seen_ids = sorted({v for m, ch, seq, n in lines if ch != b"03" for v in seq if v != b"00"}
                          | {k[3:] for k, v in headers if len(k) == 5 and k[:3] in (b"WAV", b"BPM")}
                          | {v for k, v in headers if k == b"LNOBJ"})
        recase = {i: (i.lower() if every or r.random() < 0.5 else i) for i in seen_ids}
        for h in headers:
            if len(h[0]) == 5 and h[0][:3] in (b"WAV", b"BPM"):
                h[0] = h[0][:3] + recase.get(h[0][3:], h[0][3:])
            elif h[0] == b"LNOBJ":
                h[1] = recase.get(h[1], h[1])
        for ln in lines:
            if ln[1] != b"03":
                ln[2] = [recase.get(v, v) for v in ln[2]]
    return dict(headers=headers, lines=[[m, ch, b"".join(seq)] for m, ch, seq, n in lines]), layout


def gen_bms_fmt(r: random.Random, knobs: dict) -> dict:
    return dict(newline="lf" if knobs.get("stored_newline") == "lf" else "crlf", lead_comment=r.random() < 0.4,
                blank_between=r.random() < 0.3, indent_lines=r.choice([False, False, False, "some", "all"]),
                header_sep=r.choice(["space", "space", "space", "tab"]), lower_commands=r.random() < 0.12)


# ---------------------------------------------------------------- O2Jam (binary first, C07)

OJN_SLOTS = [1, 2, 3, 4, 4, 6, 8, 8, 12, 16, 16, 24, 32, 48, 64, 96, 192, 5, 7]
OJN_BPMS = [130.0, 120.0, 60.0, 200.0, 173.5, 87.25, 240.0, 90.0, 0.75, 300.0, 150.0]


def gen_ojn_level(r: random.Random, n_meas: int, hi: int, tempo_on_measures=False) -> list:
    pkgs = []
    fam = [r.choice([OJN_SLOTS[:17]] * 6 + ODD_FAMILIES) for _ in range(n_meas + 2)]  # see gen_bms_doc
    # notes per column, long notes nest across packages and measures
    for col in range(7):
        if r.random() < 0.3:
            continue
        open_ = False
        for m in range(n_meas):
            if r.random() < 0.45 and not open_:
                continue
            n = r.choice(fam[m] if tempo_on_measures else OJN_SLOTS)
            ev = [0] * n
            k = r.randint(1, max(1, min(n, 3)))
            for i in sorted(r.sample(range(n), min(k, n))):
                vol, pan = r.randrange(16), r.randrange(16)
                if open_ and not tempo_on_measures and r.random() < 0.2:  # (not in C09 sources: an #LNOBJ target cannot say that)
                    ev[i] = [r.randint(1, 500), vol, pan, 0]  # a normal note while the long note of this column is still held
                elif open_:
                    ev[i] = [r.randint(1, 500), vol, pan, 3]
                    open_ = False
                elif r.random() < 0.3:
                    ev[i] = [r.randint(1, 500), vol, pan, 2]
                    open_ = True
                else:
                    ev[i] = [r.randint(1, 500), vol, pan, 0]
            pkgs.append([m, col + 2, ev])
            if not open_ and not any(e and e[3] != 0 for e in ev) and r.random() < 0.15:
                # a second package for the same measure and channel (objects overlay; no long note involved)
                n2 = r.choice([3, 12] if tempo_on_measures else [3, 5, 7, 12])
                ev2 = [0] * n2
                i2 = r.randrange(n2)
                if all(Fraction(i2, n2) != Fraction(j, len(ev)) for j, e in enumerate(ev) if e):
                    ev2[i2] = [r.randint(1, 500), r.randrange(16), r.randrange(16), 0]
                    pkgs.append([m, col + 2, ev2])
        if open_:
            pkgs.append([n_meas, col + 2, [[1, 0, 8, 3]] + [0] * r.choice([0, 1, 3])])
    # tempo events anywhere, also after the last note
    used = set()
    for _ in range(r.choice([0, 0, 1, 2, 3, 6])):
        m = r.randint(0, n_meas + 1)
        n = r.choice([1, 1, 2, 4, 8, 16, 32, 3, 12])
        i = 0 if tempo_on_measures else r.randrange(n)
        if (m, Fraction(i, n)) in used:
            continue
        used.add((m, Fraction(i, n)))
        ev = [0.0] * n
        ev[i] = r.choice(OJN_BPMS)
        pkgs.append([m, 1, ev])
    # auto-play channels (not notes)
    for _ in range(r.choice([0, 1, 2])):
        pkgs.append([r.randint(0, n_meas), r.randint(9, 22), [[r.randint(1, 500), 0, 0, r.choice([0, 4])], 0]])
    pkgs.sort(key=lambda p: (p[0], p[1]))
    return pkgs


def gen_ojn_doc(r: random.Random, hi: int = 6, pipeline: dict | None = None) -> dict:
    n_meas = r.randint(1, max(2, min(_mcap(hi, 6), hi)))
    if pipeline:
        levels = []
        for _ in range(3):
            lv = gen_ojn_level(r, n_meas, hi, tempo_on_measures=True)
            if not any(2 <= p[1] <= 8 and any(p[2]) for p in lv):
                lv.append([0, 8, [[1, 0, 8, 0]]])
            if not any(p[1] == 8 for p in lv):
                lv.append([0, 8, [[1, 0, 8, 0]]])  # the last column is used (key count is inferred from it)
            lv.sort(key=lambda p: (p[0], p[1]))
            levels.append(lv)
    else:
        levels = [gen_ojn_level(r, n_meas, hi) if r.random() < 0.9 else [] for _ in range(3)]
    header = dict(song_id=r.choice([1, 1000, 31337]), genre=r.randrange(11), bpm=r.choice(OJN_BPMS[:8]),
                  level=[r.randint(1, 40), r.randint(1, 60), r.randint(1, 99), 0], measure_count=[n_meas + 1] * 3,
                  title=r.choice(ASCII_T + OJN_LEFTOVER), artist=r.choice(ASCII_T + OJN_LEFTOVER + ["A" * 32]),
                  creator=r.choice(["me", "Evening", "c c", "", "ab\x00de", "0123456789abcdef0123456789abcdef"]),
                  ojm_file=r.choice(["o2ma100.ojm", "x.ojm", "x.ojm\x00a100.ojm"]), duration=[r.randint(30, 300) for _ in range(3)],
                  old_genre=b"", bmp_size=r.choice([0, 8000]), old_song_id=r.choice([0, 12]))
    return dict(header=header, levels=levels)


ASCII_T = ["Song", "A B", "x", "Title 1", "Caravan", "Escapes!", "q-w_e", "Take"]
# real files re-use the buffer: text of an earlier, longer value (or garbage) follows the terminator
OJN_LEFTOVER = ["Moonlight\x00Sonata (Long Ver.)", "Fly Magpie!\x00\xdf\x12ab", "x\x00\x00y", "\x00hidden", "caf\xe9 au lait"]


# ---------------------------------------------------------------- C09: osu / Quaver sources on integer milliseconds AND on the snap grid

# subdivisions d with (60000/bpm) % d == 0, all dividing 48 (so that every measure fits the .sm writer's 384-row cap)
PIPE_BPMS = {60.0: (1, 2, 4, 8), 120.0: (1, 2, 4), 240.0: (1, 2), 150.0: (1, 2, 4, 8, 16), 100.0: (1, 2, 3, 4, 6, 8),
             200.0: (1, 2, 3, 4, 6), 75.0: (1, 2, 4, 8, 16), 50.0: (1, 2, 3, 4, 6, 8, 12, 16)}


def gen_int_grid(r: random.Random, keys: int, hi: int, t0: int = 0):
    """(tempo [(ms int, bpm)], hits [(ms, col)], holds [(ms, col, end)]): every time is a whole millisecond and lies on the
    snap grid of its tempo segment; tempo changes on measure lines; per column objects do not overlap; last column used."""
    nm = r.randint(1, 4)
    nb = r.choice([1, 1, 2, 3])
    tempo = []
    t = t0
    meas = sorted(set([0] + [r.randint(1, max(1, nm - 1)) for _ in range(nb - 1)]))
    prev_m, prev_bpm = 0, None
    for m in meas:
        bpm = r.choice(list(PIPE_BPMS))
        if prev_bpm is not None:
            t += (m - prev_m) * 4 * int(60000 / prev_bpm)
        tempo.append((t, bpm, m))
        prev_m, prev_bpm = m, bpm
    pool = set()
    for _ in range(max(3, size(r, hi) * 2)):
        seg = r.choice(range(len(tempo)))
        st, bpm, m0 = tempo[seg]
        m1 = tempo[seg + 1][2] if seg + 1 < len(tempo) else nm
        if m1 <= m0:
            m1 = m0 + 1
        d = r.choice(PIPE_BPMS[bpm])
        beat_ms = int(60000 / bpm)
        k = r.randrange(0, (m1 - m0) * 4 * d)
        pool.add(st + k * beat_ms // d)
    pool = sorted(pool)
    hits, holds = [], []
    shape = r.choice(["mixed", "mixed", "mixed", "mixed", "holds_only", "hits_only"])
    p_hold = {"mixed": 0.3, "holds_only": 1.0, "hits_only": 0.0}[shape]
    for c in range(keys):
        if r.random() < 0.3 and c != keys - 1:
            continue
        ps = sorted(r.sample(pool, r.randint(1, max(1, min(len(pool), 4)))))
        if shape == "holds_only" and len(ps) % 2:
            ps = ps[:-1] if len(ps) > 1 else ps + [ps[-1] + 1000]
        i = 0
        while i < len(ps):
            if i + 1 < len(ps) and r.random() < p_hold:
                holds.append((ps[i], c, ps[i + 1]))
                i += 2
            else:
                hits.append((ps[i], c))
                i += 1
    return [(t, b) for t, b, _ in tempo], hits, holds


def gen_osu_pipeline_doc(r: random.Random, keys: int, hi: int, t0: int = 0) -> dict:
    doc = gen_osu_doc(r, 2, keys=keys)
    tempo, hits, holds = gen_int_grid(r, keys, hi, t0)
    objs = []
    for t, c in hits:
        lo, hi_x = ref_osu.column_x_range(c, keys)
        objs.append(dict(x=r.randint(lo, hi_x), y=192, offset=t, type=1, hitsound_set=0, sample_set=0, addition_set=0, custom_set=0, volume=0, hitsound_file=""))
    for t, c, e in holds:
        lo, hi_x = ref_osu.column_x_range(c, keys)
        objs.append(dict(x=r.randint(lo, hi_x), y=192, offset=t, end=e, type=128, hitsound_set=0, sample_set=0, addition_set=0, custom_set=0, volume=0, hitsound_file=""))
    objs.sort(key=lambda o: o["offset"])
    doc["objs"] = objs
    doc["tps"] = [dict(kind="bpm", offset=t, code=repr(60000.0 / b), meter=r.choice([4, 4, 3, 5, 7, 6]), sample_set=0, sample_set_index=0, volume=50, effects=0) for t, b in tempo]
    if len(doc["tps"]) > 1 and r.random() < 0.3:
        r.shuffle(doc["tps"])  # a file may list its timing points in any order
    doc["samples"] = []
    return doc


def gen_qua_pipeline_doc(r: random.Random, keys: int, hi: int, t0: int = 0) -> dict:
    doc = gen_qua_doc(r, 2)
    doc["meta"]["Mode"] = {4: "Keys4", 7: "Keys7", 8: "Keys8"}[keys]
    tempo, hits, holds = gen_int_grid(r, keys, hi, t0)
    doc["tps"] = [dict(StartTime=t, Bpm=b) for t, b in tempo]
    if len(doc["tps"]) > 1 and r.random() < 0.3:
        r.shuffle(doc["tps"])
    doc["svs"] = [dict(StartTime=t0 - r.choice([500, 100, 0]), Multiplier=1.5)] if r.random() < 0.4 else []
    doc["objs"] = [dict(StartTime=t, Lane=c + 1, KeySounds=[]) for t, c in hits] + [dict(StartTime=t, Lane=c + 1, EndTime=e, KeySounds=[]) for t, c, e in holds]
    return doc
