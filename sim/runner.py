"""Batch runner: many seeded sessions across worker processes, triage against the
known-findings file, minimisation, fresh-interpreter replay, evidence."""
from __future__ import annotations

import concurrent.futures as cf
import faulthandler
import hashlib
import json
import multiprocessing as mp
import os
import subprocess
import sys
import time
import traceback

from . import session as S
from .engine import HarnessError, Violation, VERIF_DIR
from .rng import session_seed
from .values import jsonable, unjson

DEFAULT_SEED = 20260929
SESSIONS = {
    # fixed session counts per tier (not wall-clock budgets): same seed => same verdict
    "quick": dict(C14=1600, C16=2400, C12=1600, C08=1600, C13=1600, C15=1200, C01=1200, C02=900, C03=700, C04=900,
                  C05=500, C06=1200, C07=1200, C09=600),
    # (thorough sessions are also larger: 30 ops, rows x 2.5; since every session runs in a process of its own the counts
    # were halved to keep one thorough check within about ten minutes on 16 cores)
    "thorough": dict(C14=12000, C16=20000, C12=12000, C08=12000, C13=10000, C15=6000, C01=8000, C02=6000, C03=4500,
                     C04=6000, C05=3000, C06=8000, C07=8000, C09=4000),
}
MAX_MINIMISE_CLASSES = 10
PER_CLASS_TRIES = 8


_PREIMPORTED = [False]


def _preimport():
    """Import everything a session can touch, WITHOUT running any library code beyond module import, so that the
    per-session children forked from this process all start from the same pristine state."""
    if _PREIMPORTED[0]:
        return
    import importlib
    import pkgutil

    import reamber

    for pkg in ("reamber.base", "reamber.osu", "reamber.quaver", "reamber.sm", "reamber.bms", "reamber.o2jam",
                "reamber.algorithms.convert", "reamber.algorithms.timing", "reamber.algorithms.generate",
                "reamber.algorithms.osu", "reamber.algorithms.utils", "reamber.algorithms.analysis", "reamber.algorithms.pattern"):
        try:
            m = importlib.import_module(pkg)
        except Exception:
            continue
        for info in pkgutil.walk_packages(getattr(m, "__path__", []), pkg + "."):
            try:
                importlib.import_module(info.name)
            except Exception:
                pass
    from . import scenarios, ops  # noqa: F401
    from .ops import files, twins, pipeline, algs, maps, lists  # noqa: F401
    import yaml  # noqa: F401
    _PREIMPORTED[0] = True


def _run_isolated(fn, timeout_s: float):
    """Run fn() in a forked child and return its (picklable) result: every session starts from the pristine state of
    the worker process - process-global state inside the library (caches, class attributes) set by one session cannot
    leak into the next, and one seed is one repeatable execution whatever ran before it in the batch."""
    import pickle
    import select
    import signal

    r, w = os.pipe()
    pid = os.fork()
    if pid == 0:
        code = 0
        try:
            os.close(r)
            data = pickle.dumps(fn(), protocol=pickle.HIGHEST_PROTOCOL)
            with os.fdopen(w, "wb") as f:
                f.write(data)
        except BaseException as e:  # noqa
            try:
                sys.stderr.write(f"isolated session child failed: {type(e).__name__}: {e}\n")
            except Exception:
                pass
            code = 3
        finally:
            os._exit(code)
    os.close(w)
    chunks = []
    deadline = time.time() + timeout_s
    with os.fdopen(r, "rb") as f:
        while True:
            left = deadline - time.time()
            if left <= 0:
                os.kill(pid, signal.SIGKILL)
                os.waitpid(pid, 0)
                raise HarnessError(f"isolated session did not finish within {timeout_s:.0f} s")
            ready, _, _ = select.select([f], [], [], min(left, 5.0))
            if ready:
                b = f.read(1 << 20)
                if not b:
                    break
                chunks.append(b)
    _, status = os.waitpid(pid, 0)
    if not chunks:
        raise HarnessError(f"isolated session child exited with status {status} and no result")
    return pickle.loads(b"".join(chunks))


def _one_session(prop, tier, base, i, sample):
    seed = session_seed(base, prop, i)
    t0 = time.perf_counter()
    try:
        sess = S.generate_and_run(prop, seed, tier)
    except HarnessError as e:
        return dict(i=i, seed=seed, harness_error=str(e)[:4000])
    except RecursionError as e:
        return dict(i=i, seed=seed, harness_error="RecursionError " + str(e)[:500])
    return _session_record(prop, sess, i, seed, t0, sample)


def _worker(args):
    prop, tier, base, lo, hi = args
    faulthandler.enable()
    from .engine import OP_TIMEOUT_S

    isolate = os.environ.get("VERIF_SESSION_FORK", "1") != "0"
    if isolate:
        _preimport()
    out = []
    for i in range(lo, hi):
        if isolate:
            try:
                out.append(_run_isolated(lambda: _one_session(prop, tier, base, i, i < lo + 1), 120 + 40 * 2 * max(OP_TIMEOUT_S, 1)))
            except HarnessError as e:
                out.append(dict(i=i, seed=session_seed(base, prop, i), harness_error=str(e)[:4000]))
        else:
            out.append(_one_session(prop, tier, base, i, i < lo + 1))
    return out


def _session_record(prop, sess, i, seed, t0, sample):
    if True:
        own = [v for v in sess.violations if v.prop == prop]
        foreign = [v for v in sess.violations if v.prop != prop]
        rec = dict(
            i=i, seed=seed, digest=sess.trace_digest(), steps=sess.step, own_ops=sess.own_ops,
            op_counts=sess.op_counts, probes=sess.probes, sigs=sorted(sess.sigs) if sess.own_ops else [],
            g2=len(sess.ngrams2), g3=len(sess.ngrams3),
            g2h=[hashlib.md5(repr(g).encode()).hexdigest()[:10] for g in sess.ngrams2],
            g3h=[hashlib.md5(repr(g).encode()).hexdigest()[:10] for g in sess.ngrams3],
            foreign=[v.klass() for v in foreign],
            fault_fired=dict(sess.world.fs.stats) if sess.world.fs is not None else {},
            io_ok=sess.io_ok, io_failed=sess.io_failed, raw_calls=sess.raw_calls,
            wall=time.perf_counter() - t0,
            knobs={k: str(v) for k, v in sess.knobs.items()},
        )
        if own:
            v = own[0]
            rec["violation"] = dict(klass=v.klass4(), v=v.to_json(), ops=jsonable(sess.oplog), knobs=jsonable(sess.knobs))
        if sample:
            rec["sample_ops"] = jsonable(sess.oplog)
        return rec


def _minimise_job(args):
    prop, seed, tier, ops, knobs, klass, budget = args
    ops = unjson(ops)
    knobs = unjson(knobs)
    klass = tuple(klass)
    try:
        mops, mknobs, runs = S.minimise(prop, seed, ops, knobs, klass, budget)
        if mops is None:
            # not reproducible from a clean process state: hand the unminimised trace to the fresh-interpreter replay
            return dict(ok=True, ops=jsonable(ops), knobs=jsonable(knobs), v=None, digest=None, runs=0, n0=len(ops), unminimised=True)
        return dict(ok=True, ops=jsonable(mops), knobs=jsonable(mknobs), v=None, digest=None, runs=runs, n0=len(ops))
    except Exception as e:  # noqa
        return dict(ok=False, why=f"{type(e).__name__}: {e}\n{traceback.format_exc()[-1500:]}")


def fresh_replay(path: str, timeout=300) -> dict:
    """Replay a file in a fresh interpreter; returns the JSON line it prints."""
    env = dict(os.environ, PYTHONHASHSEED="0", VERIF_NO_REEXEC="1")
    p = subprocess.run([sys.executable, os.path.join(VERIF_DIR, "run_check.py"), "--replay", path, "--json"],
                       capture_output=True, text=True, timeout=timeout, env=env, cwd=VERIF_DIR)
    for line in p.stdout.splitlines():
        if line.startswith("{"):
            try:
                return json.loads(line)
            except Exception:
                pass
    return dict(reproduced=False, error=(p.stdout + p.stderr)[-2000:])


# ---------------------------------------------------------------- known findings

def load_known(path=None):
    path = path or os.path.join(VERIF_DIR, "known_findings.json")
    if not os.path.exists(path):
        return []
    with open(path) as f:
        return json.load(f).get("findings", [])


def match_known(known, prop, violation_json, ops, knobs):
    from .features import features

    feats = None
    for k in known:
        if k.get("status") != "known" or k.get("property") != prop:
            continue
        m = k.get("match", {})
        if m.get("invariant") and m["invariant"] != violation_json["invariant"]:
            continue
        if m.get("op") and m["op"] != violation_json["op"]:
            continue
        if feats is None:
            feats = features(prop, violation_json, ops, knobs)
        if all(f in feats for f in m.get("features", [])):
            return k
    return None


# ---------------------------------------------------------------- batch

def run_batch(prop: str, tier: str, base_seed: int, n: int, jobs: int, log=print) -> dict:
    t0 = time.time()
    chunk = max(1, min(50, n // (jobs * 4) or 1))
    tasks = [(prop, tier, base_seed, lo, min(lo + chunk, n)) for lo in range(0, n, chunk)]
    recs = []
    ctx = mp.get_context("fork")
    from .engine import OP_TIMEOUT_S

    per_task_timeout = 60 + chunk * (20 + 2 * OP_TIMEOUT_S)
    with cf.ProcessPoolExecutor(max_workers=jobs, mp_context=ctx) as ex:
        futs = [ex.submit(_worker, t) for t in tasks]
        for f, t in zip(futs, tasks):
            try:
                recs.extend(f.result(timeout=per_task_timeout + 600))
            except cf.TimeoutError:
                for p in list(ex._processes.values()):
                    p.kill()
                raise HarnessError(f"worker timeout on sessions {t[3]}..{t[4]}")
            except cf.process.BrokenProcessPool as e:
                raise HarnessError(f"worker died on sessions {t[3]}..{t[4]}: {e}")
    recs.sort(key=lambda r: r["i"])
    wall_sessions = time.time() - t0
    return dict(recs=recs, wall_sessions=wall_sessions)


def triage(prop, tier, base_seed, recs, jobs, log=print):
    """Group failing sessions by violation class, minimise the first of each class,
    match against known findings, verify in a fresh interpreter."""
    known = load_known()
    failing = [r for r in recs if "violation" in r]
    by_class: dict = {}
    for r in failing:
        by_class.setdefault(tuple(r["violation"]["klass"]), []).append(r)
    reported, known_hits, unrepro = [], {}, []
    # Pre-filter on the RAW violation: sessions that already match a listed finding are counted, all others
    # stay candidates (so nothing is ever suppressed merely for sharing a class with a known finding).
    for klass in list(by_class):
        keep = []
        for r in by_class[klass]:
            k = match_known(known, prop, r["violation"]["v"], unjson(r["violation"]["ops"]), unjson(r["violation"]["knobs"]))
            if k is not None:
                known_hits[k["id"]] = known_hits.get(k["id"], 0) + 1
            else:
                keep.append(r)
        if keep:
            by_class[klass] = keep
        else:
            del by_class[klass]
    classes = sorted(by_class.items(), key=lambda kv: kv[1][0]["i"])
    # Several sessions per class are minimised: a violation that matches a KNOWN finding must not hide a
    # different violation of the same class behind it.
    todo, owner = [], []
    for ci, (klass, rs) in enumerate(classes[:MAX_MINIMISE_CLASSES]):
        for r in rs[:PER_CLASS_TRIES]:
            todo.append((prop, r["seed"], tier, r["violation"]["ops"], r["violation"]["knobs"], list(klass), 300))
            owner.append((ci, r))
    results = []
    if todo:
        ctx = mp.get_context("fork")
        with cf.ProcessPoolExecutor(max_workers=min(jobs, len(todo)), mp_context=ctx) as ex:
            results = list(ex.map(_minimise_job, todo, timeout=3600))
    per_class: dict = {}
    for (ci, r), res in zip(owner, results):
        per_class.setdefault(ci, []).append((r, res))
    for ci, (klass, rs) in enumerate(classes[:MAX_MINIMISE_CLASSES]):
        done = False
        n_known = 0
        last_known = None
        for r, res in per_class.get(ci, []):
            if not res.get("ok"):
                unrepro.append(dict(klass=klass, seed=r["seed"], why=res.get("why")))
                done = True
                break
            ops, knobs = unjson(res["ops"]), unjson(res["knobs"])
            # The fresh interpreter is the judge: the replay file is written, replayed twice in fresh processes, and
            # reported only if both runs show the violation class with one and the same trace digest.
            d8 = hashlib.sha256(json.dumps(res["ops"], sort_keys=True).encode()).hexdigest()[:8]
            path = os.path.join(VERIF_DIR, "replays", f"{prop}-{r['seed']}-{d8}.json")
            v0 = r["violation"]["v"]
            v = Violation(klass[0], klass[1], klass[2], v0["step"], v0["message"])
            S.write_replay(path, prop, r["seed"], tier, knobs, ops, v, None, res["n0"])
            fr = fresh_replay(path)
            fr2 = fresh_replay(path) if fr.get("reproduced") else {}
            if not (fr.get("reproduced") and fr2.get("reproduced") and fr.get("digest") == fr2.get("digest")):
                unrepro.append(dict(klass=klass, seed=r["seed"], why="fresh-interpreter replays do not reproduce the violation identically",
                                    detail=[fr, fr2], path=path))
                done = True
                break
            vj = fr["violation"]
            k = match_known(known, prop, vj, ops, knobs)
            if k is not None:
                n_known += 1
                last_known = k
                known_hits[k["id"]] = known_hits.get(k["id"], 0) + 1
                os.remove(path)
                continue
            v = Violation(vj["property"], vj["invariant"], vj["op"], vj["step"], vj["message"])
            S.write_replay(path, prop, r["seed"], tier, knobs, ops, v, fr["digest"], res["n0"])
            reported.append(dict(path=path, klass=klass, sessions=len(rs), v=vj, n_ops=len(ops)))
            done = True
            break
        if not done and last_known is not None and len(rs) > n_known:
            # the sessions beyond PER_CLASS_TRIES were not minimised: counted under the same entry, and said so
            known_hits[last_known["id"] + " (further sessions of the class, not minimised)"] = len(rs) - n_known
    # classes beyond the minimisation cap: still violations, reported from unminimised traces
    for klass, rs in classes[MAX_MINIMISE_CLASSES:]:
        r = rs[0]
        ops, knobs = unjson(r["violation"]["ops"]), unjson(r["violation"]["knobs"])
        k = match_known(known, prop, r["violation"]["v"], ops, knobs)
        if k is not None:
            known_hits[k["id"]] = known_hits.get(k["id"], 0) + len(rs)
            continue
        path = os.path.join(VERIF_DIR, "replays", f"{prop}-{r['seed']}-unmin.json")
        vj = r["violation"]["v"]
        v = Violation(vj["property"], vj["invariant"], vj["op"], vj["step"], vj["message"])
        S.write_replay(path, prop, r["seed"], tier, knobs, ops, v, r["digest"], len(ops))
        reported.append(dict(path=path, klass=klass, sessions=len(rs), v=vj, n_ops=len(ops)))
    return dict(reported=reported, known_hits=known_hits, unreproducible=unrepro, n_failing=len(failing), n_classes=len(by_class))


def replay_known_witnesses(prop, log=print):
    """Every `known` witness is replayed at the start of a run (KNOWN-FINDING lines);
    every `fixed` witness is replayed as a regression session (VIOLATION if it returns)."""
    lines, regress = [], []
    for k in load_known():
        if k.get("property") != prop or not k.get("witness"):
            continue
        path = os.path.join(VERIF_DIR, k["witness"])
        if not os.path.exists(path):
            continue
        doc = S.load_replay(path)
        klass = (doc["violation"]["property"], doc["violation"]["invariant"], doc["violation"]["op"])
        sess = S.replay_ops(prop, doc["seed"], doc["ops"], doc["knobs"], stop_at_class=klass)
        hit = any(v.klass() == klass for v in sess.violations)
        if k["status"] == "known":
            if hit:
                lines.append(f"KNOWN-FINDING: property={prop} {k['id']}: {k['what']}")
            else:
                lines.append(f"NOTE: known finding {k['id']} no longer reproduces from its witness")
        elif k["status"] == "fixed" and hit:
            regress.append(dict(path=path, id=k["id"], v=[v for v in sess.violations if v.klass() == klass][0].to_json()))
    return lines, regress
