"""Map / mapset / stacker / rate / converter operations (C08, C12, C13, C14)."""
from __future__ import annotations

import importlib
import operator

import pandas as pd

from .. import fields
from ..engine import OpSpec, Outcome, lib_call, HarnessError
from ..snap import alpha_list, alpha_map, alpha_mapset, alpha_meta
from ..values import eqv, close, norm, NAN
from . import register
from .lists import rows_eq, make_item, unexpected, ARITH, ARITH_PURE, _stale_stackers


# ------------------------------------------------------------------ construction

def build_list(cls: str, rows: list[dict], how: str = "items"):
    L = fields.list_class(cls)
    rows = [{k: (list(v) if isinstance(v, tuple) else v) for k, v in r.items()} for r in rows]
    if not rows:
        return L([])
    if how == "df":
        return L(pd.DataFrame(rows))
    if how == "df_dup_labels":
        # two frames put together with pd.concat without ignore_index: row labels repeat (0, 1, 0, 1, ...)
        df = pd.DataFrame(rows)
        k = max(1, len(df) // 2)
        df.index = [i % k for i in range(len(df))]
        return L(df)
    if how == "df_extra":
        # built from a DataFrame that carries a user column besides the declared fields, only partly filled
        df = pd.DataFrame(rows)
        df["tag"] = [float("nan") if i % 2 else f"t{i}" for i in range(len(df))]
        return L(df)
    return L([make_item(cls, r) for r in rows])


def set_meta(obj, meta: dict):
    for k, v in meta.items():
        if k == "samples" and isinstance(v, list):
            v = build_list("OsuSampleList", v)
        elif k == "samples_dict":
            k, v = "samples", dict(v)
        elif isinstance(v, tuple):
            v = list(v)
        setattr(obj, k, v)


@register
class MapNew(OpSpec):
    name = "map.new"
    operand_keys = ()

    def run(self, sess, op):
        out = Outcome(own_kind=False)
        game = op["game"]
        M = fields.map_class(game)
        slots = fields.GAMES[game]

        def make():
            m = M()
            for key, rows in op.get("lists", {}).items():
                setattr(m, key, build_list(slots[key], rows, op.get("how", "items")))
            set_meta(m, op.get("meta", {}))
            return m

        res = lib_call(make)
        if not res.ok:
            # building a chart from items is ordinary documented usage; attribute to C16 (construction)
            unexpected(out, "C16", "I3.map.new", f"building a {game} chart from items", res)
            return out
        out.new.append((op["out"], "map", res.value, None, game, dict(keys=op.get("keys", 4), **({"layout": op["layout"]} if op.get("layout") else {}))))
        out.note = ("map.new", game, tuple((k, len(v)) for k, v in sorted(op.get("lists", {}).items())))
        return out


@register
class MapSetNew(OpSpec):
    name = "mapset.new"
    operand_keys = ("maps",)

    def run(self, sess, op):
        out = Outcome(own_kind=False)
        game = op["game"]
        S = fields.mapset_class(game)
        maps = [sess.world.get(n) for n in op["maps"]]

        def make():
            s = S(maps=[m.obj for m in maps]) if game != "base" else S([m.obj for m in maps])
            set_meta(s, op.get("meta", {}))
            return s

        res = lib_call(make)
        if not res.ok:
            unexpected(out, "C16", "I3.mapset.new", f"building a {game} mapset", res)
            return out
        out.new.append((op["out"], "mapset", res.value, list(op["maps"]), game, {}))
        out.note = ("mapset.new", game, len(maps))
        return out


@register
class MetaMutate(OpSpec):
    """In-place edit of a list- or dict-valued header field of a chart / set (o2jam level and count lists, osu tags,
    BMS sample table): lst[0] = x, lst.append(x), d[k] = v.  A mutating op on its handle; every other handle must stay."""

    name = "meta.mutate"

    def run(self, sess, op):
        out = Outcome(mutates=[op["h"]], own_kind=False)
        h = sess.world.get(op["h"])
        import dataclasses as _dc

        names = [f.name for f in _dc.fields(h.obj) if not f.name.startswith("_") and f.name not in ("objs", "maps")
                 and isinstance(getattr(h.obj, f.name, None), (list, dict))] if _dc.is_dataclass(h.obj) else []
        if not names:
            out.skipped = True
            out.mutates = None
            return out
        name = sorted(names)[op.get("field_ix", 0) % len(names)]
        v = getattr(h.obj, name)

        def do():
            if isinstance(v, list):
                texty = name == "tags" or (v and isinstance(v[0], str))  # keep the field's own element type (tags are words)
                if v and op.get("how") == "setitem":
                    v[0] = "edited" if texty else op.get("value", 424242)
                else:
                    v.append("edited" if texty else op.get("value", 424242))
            else:
                k = next(iter(v), None)
                if k is None or op.get("how") != "setitem":
                    v[b"ZX" if any(isinstance(x, bytes) for x in v) or h.game == "bms" else "zx"] = b"edited.wav" if h.game == "bms" else "edited"
                else:
                    v[k] = b"edited.wav" if isinstance(v[k], bytes) else "edited"

        res = lib_call(do)  # plain Python on the caller's side; routed through lib_call only for uniform error handling
        if not res.ok:
            raise HarnessError(f"meta.mutate failed: {res.exc!r}")
        out.note = ("meta.mutate", name, op.get("how"))
        out.probes.append("meta_list_field_edited")
        return out


@register
class MapSetGetMap(OpSpec):
    name = "mapset.get_map"

    def run(self, sess, op):
        out = Outcome(own_kind=False)
        h = sess.world.get(op["h"])
        n = len(h.obj.maps)
        if not (0 <= op["i"] < n):
            out.skipped = True
            return out
        res = lib_call(lambda: h.obj[op["i"]])
        if not res.ok:
            unexpected(out, "C16", "I3.mapset.get_map", "mapset[i]", res)
            return out
        if res.value is not h.obj.maps[op["i"]]:
            out.fail("C16", "I3.mapset.get_map", "mapset[i] is not the i-th chart")
        out.new.append((op["out"], "map", res.value, op["h"], h.game, dict(converted=h.meta.get("converted", False))))
        out.note = ("get_map", op["i"])
        return out


@register
class MapAssignList(OpSpec):
    """m.<key> = some_list"""

    name = "map.assign_list"
    operand_keys = ("h", "x")

    def run(self, sess, op):
        h = sess.world.get(op["h"])
        x = sess.world.get(op["x"])
        out = Outcome(mutates=[op["h"], op["x"]], own_kind=False)
        key = op["key"]
        if key not in h.obj.objs or x.kind != "list" or type(x.obj) is not type(h.obj.objs[key]):
            out.skipped = True
            out.mutates = None
            return out
        exp = alpha_list(x.obj)["rows"]

        def do():
            setattr(h.obj, key, x.obj)

        res = lib_call(do)
        if not res.ok:
            unexpected(out, "C16", "I3.map.assign_list", f"m.{key} = list", res)
            return out
        m = rows_eq(alpha_list(h.obj.objs[key])["rows"], exp)
        if m:
            out.fail("C16", "I3.map.assign_list", f"m.{key} after assignment: {m}")
        sess.world.union(op["h"], op["x"])
        _stale_stackers(sess, op["h"])
        out.note = ("assign_list", key, len(exp))
        return out


@register
class MapGetList(OpSpec):
    name = "map.get_list"

    def run(self, sess, op):
        out = Outcome(own_kind=False)
        h = sess.world.get(op["h"])
        key = op["key"]
        if key not in h.obj.objs:
            out.skipped = True
            return out
        res = lib_call(lambda: getattr(h.obj, key))
        if not res.ok:
            unexpected(out, "C16", "I3.map.get_list", f"m.{key}", res)
            return out
        cls = type(res.value).__name__
        out.new.append((op["out"], "list", res.value, op["h"], h.game, dict(cls=cls, keys=h.meta.get("keys", 4))))
        out.note = ("get_list", key, len(res.value.df))
        return out


def maps_alpha_eq(a: dict, b: dict, what="") -> str:
    """Equality of two map abstractions (lists by row value, metadata by value)."""
    if a["cls"] != b["cls"]:
        return f"{what}class {a['cls']} != {b['cls']}"
    if list(a["lists"].keys()) != list(b["lists"].keys()):
        return f"{what}list slots differ"
    for k in a["lists"]:
        la, lb = a["lists"][k], b["lists"][k]
        if la["cls"] != lb["cls"]:
            return f"{what}list {k} class {la['cls']} != {lb['cls']}"
        if set(la["cols"]) != set(lb["cols"]):
            return f"{what}list {k} columns {la['cols']} != {lb['cols']}"
        m = rows_eq(la["rows"], lb["rows"])
        if m:
            return f"{what}list {k}: {m}"
    return meta_eq(a["meta"], b["meta"], what)


def meta_eq(ma: dict, mb: dict, what="") -> str:
    if set(ma) != set(mb):
        return f"{what}metadata fields differ: {sorted(set(ma) ^ set(mb))}"
    for k in ma:
        va, vb = ma[k], mb[k]
        if isinstance(va, dict) and "rows" in va and isinstance(vb, dict) and "rows" in vb:
            m = rows_eq(va["rows"], vb["rows"])
            if m:
                return f"{what}metadata list {k}: {m}"
        elif not eqv(va, vb):
            return f"{what}metadata {k}: got {va!r}, expected {vb!r}"
    return ""


@register
class Deepcopy(OpSpec):
    """map.deepcopy / mapset.deepcopy"""

    name = "map.deepcopy"

    def run(self, sess, op):
        out = Outcome(own_kind=False)
        h = sess.world.get(op["h"])
        al = alpha_map if h.kind == "map" else alpha_mapset
        pre = al(h.obj)
        res = lib_call(h.obj.deepcopy)
        if not res.ok:
            unexpected(out, "C14", "I3.map.deepcopy", "deepcopy", res)
            return out
        post = al(res.value)
        if h.kind == "map":
            m = maps_alpha_eq(post, pre)
        else:
            m = ""
            if len(post["maps"]) != len(pre["maps"]):
                m = "number of charts differs"
            for i, (x, y) in enumerate(zip(post["maps"], pre["maps"])):
                m = m or maps_alpha_eq(x, y, f"chart {i}: ")
            m = m or meta_eq(post["meta"], pre["meta"])
        if m:
            out.fail("C14", "I3.map.deepcopy", m)
        out.new.append((op["out"], h.kind, res.value, None, h.game, dict(h.meta, copy_of="deepcopy")))
        out.note = ("deepcopy", h.kind)
        return out


# ------------------------------------------------------------------ rate (C13)

def _rate_rows(la: dict, r: float) -> list[dict]:
    exp = []
    for row in la["rows"]:
        n = dict(row)
        if "offset" in n and n["offset"] is not NAN:
            n["offset"] = n["offset"] / r
        if "length" in n and n["length"] is not NAN:
            n["length"] = n["length"] / r
        if "bpm" in n and n["bpm"] is not NAN:
            n["bpm"] = n["bpm"] * r
        exp.append(n)
    return exp


def rate_map_model(a: dict, r: float) -> dict:
    exp = dict(cls=a["cls"], lists={}, meta=dict(a["meta"]))
    for k, la in a["lists"].items():
        exp["lists"][k] = dict(cls=la["cls"], cols=la["cols"], rows=_rate_rows(la, r))
    if a["cls"] == "OsuMap":
        s = a["meta"]["samples"]
        exp["meta"]["samples"] = dict(cls=s["cls"], cols=s["cols"], rows=_rate_rows(dict(rows=s["rows"]), r))
        exp["meta"]["preview_time"] = a["meta"]["preview_time"] / r
    return exp


def rate_rows_eq(got, exp) -> str:
    if len(got) != len(exp):
        return f"length {len(got)} != expected {len(exp)}"
    for i, (x, y) in enumerate(zip(got, exp)):
        for k in sorted(set(x) | set(y)):
            a, b = x.get(k, NAN), y.get(k, NAN)
            if k in ("offset", "length", "bpm"):
                if not close(a, b, rel=1e-12, abs_=0.0):
                    return f"row {i} field {k!r}: got {a!r}, expected {b!r}"
            elif not eqv(a, b):
                return f"row {i} field {k!r} (must be unchanged by rate): got {a!r}, expected {b!r}"
    return ""


def rate_map_eq(post: dict, exp: dict, what="") -> str:
    if post["cls"] != exp["cls"]:
        return f"{what}class {post['cls']} != {exp['cls']}"
    if list(post["lists"].keys()) != list(exp["lists"].keys()):
        return f"{what}list slots differ"
    for k in exp["lists"]:
        if post["lists"][k]["cls"] != exp["lists"][k]["cls"]:
            return f"{what}list {k} class changed"
        if set(post["lists"][k]["cols"]) != set(exp["lists"][k]["cols"]):
            return f"{what}list {k} columns {post['lists'][k]['cols']} != {exp['lists'][k]['cols']}"
        m = rate_rows_eq(post["lists"][k]["rows"], exp["lists"][k]["rows"])
        if m:
            return f"{what}list {k}: {m}"
    pm, em = post["meta"], exp["meta"]
    if set(pm) != set(em):
        return f"{what}metadata fields differ"
    for k in em:
        va, vb = pm[k], em[k]
        if isinstance(vb, dict) and "rows" in vb:
            m = rate_rows_eq(va["rows"], vb["rows"])
            if m:
                return f"{what}metadata list {k}: {m}"
        elif k in ("preview_time", "sample_start", "sample_length", "offset"):
            if not close(va, vb, rel=1e-12, abs_=0.0):
                return f"{what}file-level time field {k}: got {va!r}, expected {vb!r}"
        elif not eqv(va, vb):
            return f"{what}metadata {k} (must be unchanged by rate): got {va!r}, expected {vb!r}"
    return ""


@register
class Rate(OpSpec):
    name = "map.rate"

    def run(self, sess, op):
        out = Outcome()
        h = sess.world.get(op["h"])
        r = op["r"]
        if h.kind == "map":
            pre = alpha_map(h.obj)
            res = lib_call(lambda: h.obj.rate(r))
            if not res.ok:
                unexpected(out, "C13", "I3.map.rate", f"rate({r})", res)
                return out
            if type(res.value) is not type(h.obj):
                out.fail("C13", "I3.map.rate", f"rate returned {type(res.value).__name__}")
                return out
            m = rate_map_eq(alpha_map(res.value), rate_map_model(pre, r))
        else:
            pre = alpha_mapset(h.obj)
            res = lib_call(lambda: h.obj.rate(r))
            if not res.ok:
                unexpected(out, "C13", "I3.map.rate", f"mapset.rate({r})", res)
                return out
            if type(res.value) is not type(h.obj):
                out.fail("C13", "I3.map.rate", f"rate returned {type(res.value).__name__}")
                return out
            post = alpha_mapset(res.value)
            m = ""
            if len(post["maps"]) != len(pre["maps"]):
                m = f"{len(post['maps'])} charts, expected {len(pre['maps'])}"
            for i, (x, y) in enumerate(zip(post["maps"], pre["maps"])):
                m = m or rate_map_eq(x, rate_map_model(y, r), f"chart {i}: ")
            em = dict(pre["meta"])
            if pre["cls"] == "SMMapSet":
                for k in ("sample_start", "sample_length", "offset"):
                    if em.get(k) is not None:
                        em[k] = em[k] / r
            m = m or rate_map_eq(dict(cls="x", lists={}, meta=post["meta"]), dict(cls="x", lists={}, meta=em))
        if m:
            out.fail("C13", "I3.map.rate", f"rate({r}): {m}")
        # "returns a new chart ... the original is untouched": the result may not be the operand nor share a frame with it
        # (for any r, r = 1 included), else a later edit of either changes the other
        def frames(o):
            ms_ = [o] if h.kind == "map" else list(o.maps)
            f = set()
            for mo in ms_:
                f |= {id(tl.df) for tl in mo.objs.values()}
                smp = getattr(mo, "samples", None)
                if smp is not None and hasattr(smp, "df"):
                    f.add(id(smp.df))
            return f

        if res.value is h.obj or (frames(res.value) & frames(h.obj)):
            out.fail("C13", "I3.map.rate.fresh", f"rate({r}) returned {'its operand itself' if res.value is h.obj else 'a chart that shares lists with its operand'}: "
                                                 "not a new chart, a later edit of the result changes the original")
        out.new.append((op["out"], h.kind, res.value, [op["h"]] if res.value is h.obj else None, h.game, dict(h.meta, copy_of="rate")))
        out.note = ("rate", r)
        out.probes.append("rate_" + h.game)
        return out


# ------------------------------------------------------------------ stackers (C12)

TYPE_SUBSETS = {
    "notes": ("reamber.base.lists.notes.NoteList", "NoteList"),
    "hits": ("reamber.base.lists.notes.HitList", "HitList"),
    "holds": ("reamber.base.lists.notes.HoldList", "HoldList"),
    "bpms": ("reamber.base.lists.BpmList", "BpmList"),
}


def _type(name):
    mod, n = TYPE_SUBSETS[name]
    m = importlib.import_module(mod)
    c = getattr(m, n)
    return c if isinstance(c, type) else getattr(c, n)


def stack_members(m, include):
    if not include:
        return list(m.objs.keys())
    tys = tuple(_type(t) for t in include)
    return [k for k, v in m.objs.items() if isinstance(v, tys)]


@register
class Stack(OpSpec):
    name = "map.stack"

    def run(self, sess, op):
        out = Outcome(own_kind=False)
        h = sess.world.get(op["h"])
        include = op.get("include")
        if h.kind == "map":
            members = stack_members(h.obj, include)
            if not members:
                out.skipped = True
                return out
            if include:
                tys = tuple(_type(t) for t in include)
                res = lib_call(lambda: h.obj.stack(tys))
            else:
                res = lib_call(h.obj.stack)
        else:
            if not h.obj.maps:
                out.skipped = True
                return out
            res = lib_call(h.obj.stack)
        if not res.ok:
            unexpected(out, "C12", "I3.map.stack", "stack()", res)
            return out
        out.new.append((op["out"], "stacker", res.value, op["h"], h.game, dict(of=op["h"], include=include, okind=h.kind)))
        out.note = ("stack", tuple(include or ()))
        return out


def _stacker_maps(sess, h):
    """[(map object, member keys)] behind a stacker handle; None if its owner vanished."""
    owner = sess.world.get(h.meta["of"])
    if owner is None:
        return None
    if h.meta["okind"] == "map":
        return [(owner.obj, stack_members(owner.obj, h.meta.get("include")))]
    return [(m, list(m.objs.keys())) for m in owner.obj.maps]


def _stack_col_model(m, members, col):
    """Concatenation of `col` over member lists (NaN where a list lacks it)."""
    vals = []
    for k in members:
        la = alpha_list(m.objs[k])
        for r in la["rows"]:
            vals.append(r.get(col, NAN))
    return vals


@register
class StackRead(OpSpec):
    name = "stack.read"

    def run(self, sess, op):
        out = Outcome()
        h = sess.world.get(op["h"])
        if op["h"] in sess.world.stale:
            out.skipped = True
            return out
        ms = _stacker_maps(sess, h)
        if ms is None or h.meta["okind"] != "map":
            out.skipped = True
            return out
        m, members = ms[0]
        col = op["col"]
        has = any(col in m.objs[k].df.columns for k in members)
        res = lib_call(lambda: getattr(h.obj, col) if op.get("via", "attr") == "attr" else h.obj[col])
        if not has:
            if res.ok:
                out.fail("C12", "I3.stack.read", f"stack.{col} returned a value though no list has it")
            out.note = ("stack.read", col, "nocol")
            return out
        if not res.ok:
            unexpected(out, "C12", "I3.stack.read", f"stack.{col}", res)
            return out
        got = [norm(x) for x in res.value.tolist()]
        exp = _stack_col_model(m, members, col)
        if len(got) != len(exp) or not all(eqv(a, b) for a, b in zip(got, exp)):
            out.fail("C12", "I3.stack.read", f"stack.{col}: got {got}, expected {exp}")
        out.note = ("stack.read", col, len(got))
        return out


def _eval_mask_row(expr, row) -> bool:
    """Row-wise mask semantics of the stacked table: a column the list lacks is
    NaN, and every comparison with NaN is False."""
    k = expr[0]
    if k == "cmp":
        _, col, cmp, v = expr
        x = row.get(col, NAN)
        if x is NAN or not isinstance(x, (int, float, bool)):
            return cmp == "!="
        return {"<": x < v, "<=": x <= v, ">": x > v, ">=": x >= v, "==": x == v, "!=": x != v}[cmp]
    if k == "and":
        return _eval_mask_row(expr[1], row) and _eval_mask_row(expr[2], row)
    if k == "or":
        return _eval_mask_row(expr[1], row) or _eval_mask_row(expr[2], row)
    if k == "not":
        return not _eval_mask_row(expr[1], row)
    if k == "all":
        return True
    raise HarnessError(f"mask {expr}")


def _mask_cols(expr, acc=None):
    acc = set() if acc is None else acc
    if expr[0] == "cmp":
        acc.add(expr[1])
    elif expr[0] in ("and", "or"):
        _mask_cols(expr[1], acc)
        _mask_cols(expr[2], acc)
    elif expr[0] == "not":
        _mask_cols(expr[1], acc)
    return acc


_CMP = {"<": operator.lt, "<=": operator.le, ">": operator.gt, ">=": operator.ge, "==": operator.eq, "!=": operator.ne}


def _real_mask(s, expr):
    k = expr[0]
    if k == "cmp":
        return _CMP[expr[2]](getattr(s, expr[1]) if hasattr(type(s), expr[1]) else s[expr[1]], expr[3])
    if k == "and":
        return _real_mask(s, expr[1]) & _real_mask(s, expr[2])
    if k == "or":
        return _real_mask(s, expr[1]) | _real_mask(s, expr[2])
    if k == "not":
        return ~_real_mask(s, expr[1])
    if k == "all":
        return s["offset"] == s["offset"]
    raise HarnessError(f"mask {expr}")


def _expected_after_assign(m, members, cols, mask_expr, opr, v):
    """Model: the same assignment applied to each list separately."""
    exp = {}
    for k, tl in m.objs.items():
        la = alpha_list(tl)
        rows = [dict(r) for r in la["rows"]]
        if k in members:
            for r in rows:
                if mask_expr is None or _eval_mask_row(mask_expr, r):
                    for c in cols:
                        if c in r:
                            if opr == "=":
                                r[c] = norm(v)
                            elif r[c] is not NAN:
                                r[c] = norm(ARITH_PURE[opr](r[c], v))
        exp[k] = dict(cls=la["cls"], cols=la["cols"], rows=rows)
    return exp


def _check_after_assign(out, inv, maps_exp, maps_real, meta_pre):
    for i, ((m, _), exp) in enumerate(zip(maps_real, maps_exp)):
        if list(m.objs.keys()) != list(exp.keys()):
            out.fail("C12", inv, f"chart {i}: list slots changed")
            continue
        for k, e in exp.items():
            la = alpha_list(m.objs[k])
            if la["cls"] != e["cls"]:
                out.fail("C12", inv, f"chart {i} list {k}: class changed {e['cls']} -> {la['cls']}")
            elif la["cols"] != e["cols"]:
                out.fail("C12", inv, f"chart {i} list {k}: columns changed {e['cols']} -> {la['cols']}")
            else:
                msg = rows_eq(la["rows"], e["rows"])
                if msg:
                    out.fail("C12", inv, f"chart {i} list {k}: {msg}")
        mm = meta_eq(alpha_meta(m), meta_pre[i], f"chart {i}: ")
        if mm:
            out.fail("C12", inv, mm)


@register
class StackAssign(OpSpec):
    """s.<col> = s.<col> op v   |   s.<col> op= v   |   s.<col> = v
       s.loc[mask, col(s)] op= v   |   s.loc[mask, col(s)] = v
    Only through a *fresh* stacker (DESIGN §4.7)."""

    name = "stack.assign"

    def run(self, sess, op):
        h = sess.world.get(op["h"])
        owner = h.meta["of"]
        out = Outcome(mutates=[owner])
        if op["h"] in sess.world.stale and not sess.knobs.get("allow_stale"):
            out.skipped = True
            out.mutates = None
            return out
        ms = _stacker_maps(sess, h)
        if ms is None:
            out.skipped = True
            out.mutates = None
            return out
        cols = list(op["cols"])
        mask = op.get("mask")
        opr, v = op["opr"], op["v"]
        form = op.get("form", "aug")
        if mask is not None and h.meta["okind"] != "map":
            out.skipped = True
            out.mutates = None
            return out
        needed = set(cols) | (_mask_cols(mask) if mask else set())
        if mask is not None and mask[0] == "all":
            needed.add("offset")
        for m, members in ms:
            present = {c for k in members for c in m.objs[k].df.columns}
            if not needed <= present:
                # documented: "all properties must exist at least once" -> KeyError; not exercised
                out.skipped = True
                out.mutates = None
                return out
        maps_exp = [_expected_after_assign(m, members, cols, mask, opr, v) for m, members in ms]
        meta_pre = [alpha_meta(m) for m, _ in ms]
        s = h.obj

        def do():
            if mask is None:
                c = cols[0]
                if opr == "=":
                    if h.meta["okind"] == "map":
                        setattr(s, c, v)
                    else:
                        setattr(s, c, getattr(s, c) * 0 + v)
                elif form == "aug":
                    setattr(s, c, ARITH[opr](getattr(s, c), v))
                else:
                    setattr(s, c, ARITH_PURE[opr](getattr(s, c), v))
            else:
                mk = _real_mask(s, mask)
                mf = op.get("mask_form", "series")
                # the same boolean mask delivered in another shape: a Series selects by LABEL whatever its row order,
                # a list / ndarray by position
                if mf == "reversed":
                    mk = mk[::-1]
                elif mf == "by_value":
                    mk = mk.sort_values(kind="stable")
                elif mf == "list":
                    mk = [bool(x) for x in mk]
                elif mf == "ndarray":
                    mk = mk.to_numpy()
                key = (mk, cols[0] if (len(cols) == 1 and not op.get("cols_as_list")) else cols)
                loc = s.loc
                if opr == "=":
                    loc[key] = v
                else:
                    loc[key] = ARITH[opr](loc[key], v)

        res = lib_call(do)
        inv = "I3.stack.assign" if mask is None else "I3.stack.loc"
        if not res.ok:
            unexpected(out, "C12", inv, f"stack assignment {cols} {opr} {v!r} mask={mask}", res)
            # lists may be half-updated: refresh happens through mutates/havoc
            return out
        _check_after_assign(out, inv, maps_exp, ms, meta_pre)
        # other stackers of the same owner are stale now; this one stays fresh
        w = sess.world
        for n in w.alias_class(owner):
            hd = w.h.get(n)
            if hd is not None and hd.kind == "stacker" and n != op["h"]:
                w.stale.add(n)
        # A plain '=' assignment also fills the stacker's cached table for rows of lists that LACK the
        # column (phantom cells that exist in no list).  Reading or masking on them afterwards through the
        # same stacker is outside C12's domain (same decision as stale use, DESIGN 4.7): re-stack first.
        if opr == "=":
            for m, members in ms:
                if any(len(m.objs[k].df) and any(c not in m.objs[k].df.columns for c in cols) for k in members):
                    w.stale.add(op["h"])
                    out.probes.append("stack_phantom_cells_restack")
                    break
        out.note = ("stack.assign", tuple(cols), opr, mask is not None)
        if mask is not None:
            out.probes.append("stack_loc_assign")
            if op.get("mask_form", "series") != "series":
                out.probes.append("stack_loc_mask_" + op["mask_form"])
        for m, members in ms:
            if any(len(m.objs[k].df) == 0 for k in members):
                out.probes.append("stack_with_empty_list")
                break
        return out


# ------------------------------------------------------------------ converters (C08)

def _sjis(b):
    if isinstance(b, bytes):
        return b.decode("shift_jis")
    return b


# name -> (module, src game, src kind, tgt game, tgt kind, has shift, default shift, has raise_bad_mode)
CONVERTERS = {
    "OsuToQua": ("osu", "map", "qua", "map", False, 0, True),
    "OsuToSM": ("osu", "map", "sm", "mapset", False, 0, True),
    "OsuToBMS": ("osu", "map", "bms", "map", True, 0, False),
    "QuaToOsu": ("qua", "map", "osu", "map", False, 0, False),
    "QuaToSM": ("qua", "map", "sm", "mapset", False, 0, False),
    "QuaToBMS": ("qua", "map", "bms", "map", True, 0, False),
    "SMToOsu": ("sm", "mapset", "osu", "maps", False, 0, False),
    "SMToQua": ("sm", "mapset", "qua", "maps", False, 0, True),
    "SMToBMS": ("sm", "mapset", "bms", "maps", False, 0, False),
    "BMSToOsu": ("bms", "map", "osu", "map", False, 0, False),
    "BMSToQua": ("bms", "map", "qua", "map", False, 0, True),
    "BMSToSM": ("bms", "map", "sm", "mapset", False, 0, False),
    "O2JToOsu": ("o2j", "mapset", "osu", "maps", False, 0, False),
    "O2JToQua": ("o2j", "mapset", "qua", "maps", False, 0, False),
    "O2JToBMS": ("o2j", "mapset", "bms", "maps", True, 1, False),
    "O2JToSM": ("o2j", "mapset", "sm", "mapsets", False, 0, False),
    "O2JToSM.merge": ("o2j", "mapset", "sm", "mapset_merged", False, 0, False),
}

QUA_KEYS = {4, 7, 8}
SM_KEYS = {3, 4, 6, 7, 8}


def converter(name):
    base = name.split(".")[0]
    m = importlib.import_module(f"reamber.algorithms.convert.{base}")
    c = getattr(m, base)
    return c if isinstance(c, type) else getattr(c, base)


def _src_title_artist(game, map_alpha, set_alpha):
    meta = set_alpha["meta"] if set_alpha is not None else map_alpha["meta"]
    return _sjis(meta.get("title")), _sjis(meta.get("artist"))


def _tgt_title_artist(game, tgt_map_alpha, tgt_set_alpha):
    meta = tgt_set_alpha["meta"] if tgt_set_alpha is not None else tgt_map_alpha["meta"]
    return _sjis(meta.get("title")), _sjis(meta.get("artist"))


_CREATOR = {"osu": "creator", "qua": "creator", "sm": "credit", "o2j": "creator"}  # bms has no creator slot
_DIFF = {"osu": "version", "qua": "difficulty_name", "bms": "version"}  # sm/o2j: converter-formatted, not judged


def _max_col(map_alpha):
    cs = [r["column"] for la in map_alpha["lists"].values() for r in la["rows"] if "column" in r and r["column"] is not NAN]
    return max(cs) if cs else None


def _check_converted_map(out, cname, src_a, tgt_a, shift, src_game, tgt_game, what=""):
    inv = "I3.convert"
    slots = fields.GAMES[tgt_game]
    pairs = [("hits", ["offset", "column"]), ("holds", ["offset", "column", "length"]), ("bpms", ["offset", "bpm"])]
    if "svs" in fields.GAMES[src_game] and "svs" in slots:
        pairs.append(("svs", ["offset", "multiplier"]))
    for key, cols in pairs:
        la = tgt_a["lists"].get(key)
        if la is None:
            out.fail("C08", inv, f"{cname}: {what}target has no {key} list")
            continue
        want_cls = slots[key]
        if la["cls"] != want_cls:
            out.fail("C08", inv, f"{cname}: {what}{key} is a {la['cls']}, expected {want_cls}")
        want_fields = set(fields.declared(want_cls))
        if set(la["cols"]) != want_fields:
            out.fail("C08", inv, f"{cname}: {what}{key} has fields {sorted(la['cols'])}, the target game declares {sorted(want_fields)}")
        src_rows = src_a["lists"][key]["rows"]
        if len(la["rows"]) != len(src_rows):
            out.fail("C08", inv, f"{cname}: {what}{key}: {len(la['rows'])} rows, source has {len(src_rows)}")
            continue
        for i, (t, s) in enumerate(zip(la["rows"], src_rows)):
            bad = None
            for c in cols:
                e = s[c] + shift if c == "column" else s[c]
                if not eqv(t.get(c, NAN), e):
                    bad = f"{what}{key} row {i} {c}: got {t.get(c, NAN)!r}, expected {e!r}"
                    break
            if bad is None:
                for c, v in t.items():
                    if v is NAN or v is None:
                        bad = f"{what}{key} row {i}: field {c} has a missing value"
                        break
            if bad:
                out.fail("C08", inv, f"{cname}: {bad}")
                break
    # lists of the target that have no source counterpart must be present (and are empty or default)
    for key, la in tgt_a["lists"].items():
        if key not in [p[0] for p in pairs]:
            for i, t in enumerate(la["rows"]):
                for c, v in t.items():
                    if v is NAN:
                        out.fail("C08", inv, f"{cname}: {what}{key} row {i}: field {c} has a missing value")


def _key_count_supported(cname, src_a, src_set_a) -> bool | None:
    """True: must succeed. False: ValueError (raise_bad_mode) is the expected outcome. None: not judged."""
    if cname == "OsuToQua":
        try:
            return int(src_a["meta"]["circle_size"]) in QUA_KEYS
        except Exception:
            return None
    if cname == "OsuToSM":
        mc = _max_col(src_a)
        return None if mc is None else (mc + 1) in SM_KEYS
    if cname == "BMSToQua":
        mc = _max_col(src_a)
        return None if mc is None else int(mc + 1) in QUA_KEYS
    if cname == "SMToQua":
        from reamber.sm.SMMapMeta import SMMapChartTypes

        k = SMMapChartTypes.get_keys(src_a["meta"]["chart_type"])
        return None if k is None else k in QUA_KEYS
    return True


@register
class Convert(OpSpec):
    name = "convert"
    output_keys = ("outs",)

    def run(self, sess, op):
        out = Outcome()
        cname = op["conv"]
        sg, sk, tg, tk, has_shift, dshift, has_rbm = CONVERTERS[cname]
        h = sess.world.get(op["h"])
        if h.game != sg or h.kind != sk:
            out.skipped = True
            return out
        C = converter(cname)
        shift = op.get("shift") if has_shift else 0
        eff_shift = (dshift if shift is None else shift) if has_shift else 0
        if sk == "map":
            src_maps = [alpha_map(h.obj)]
            src_set = None
        else:
            sa = alpha_mapset(h.obj)
            src_maps, src_set = sa["maps"], sa
        # preconditions of documented usage: every source chart has at least one note
        for ma in src_maps:
            if _max_col(ma) is None:
                out.skipped = True
                return out
        if not src_maps:
            out.skipped = True
            return out
        fn = C.convert_merge if cname.endswith(".merge") else C.convert
        kw, pos = {}, ()
        if has_shift and shift is not None:
            if op.get("shift_positional"):
                pos = (shift,)  # convert(chart, 1): the documented second positional parameter
                out.probes.append("convert_shift_positional")
            else:
                kw["move_right_by"] = shift
        rbm = op.get("rbm") if has_rbm else None
        if rbm is not None:
            kw["raise_bad_mode"] = bool(rbm)  # False: a key count the target has no mode for is converted anyway
            out.probes.append("convert_raise_bad_mode_" + str(bool(rbm)))
        res = lib_call(lambda: fn(h.obj, *pos, **kw))
        sup = [_key_count_supported(cname, ma, src_set) for ma in src_maps]
        if not res.ok:
            if has_rbm and rbm is not False and isinstance(res.exc, ValueError) and "supported" in str(res.exc) and any(s is False for s in sup):
                out.note = ("convert", cname, "bad_mode")
                out.probes.append("convert_bad_mode_rejected")
                return out
            if any(s is None for s in sup):
                out.note = ("convert", cname, "keycount-undetermined")
                return out
            unexpected(out, "C08", "I3.convert", f"{cname}.convert", res)
            if h.meta.get("src_den") is not None:
                # read -> convert -> write (C09): a converter that raises on a chart freshly read from an in-domain file
                # means no target file is produced at all
                out.fail("C09", "I3.pipeline.convert", f"{cname}.convert raised {res.exc_name} on a chart read from a {h.meta.get('src_game')} file: "
                                                       f"{str(res.exc)[:200]} at {res.where}")
            return out
        val = res.value
        # ---- shape: one target chart per source chart
        tgt_maps = []  # (map alpha, set alpha or None, object to register, kind)
        regs = []
        if tk == "map":
            tgt_maps = [(alpha_map(val), None)]
            regs = [(val, "map")]
        elif tk == "maps":
            if not isinstance(val, list):
                out.fail("C08", "I3.convert", f"{cname}: expected a list of charts, got {type(val).__name__}")
                return out
            tgt_maps = [(alpha_map(m), None) for m in val]
            regs = [(m, "map") for m in val]
        elif tk == "mapset":
            sa = alpha_mapset(val)
            tgt_maps = [(m, sa) for m in sa["maps"]]
            regs = [(val, "mapset")]
        elif tk == "mapsets":
            if not isinstance(val, list):
                out.fail("C08", "I3.convert", f"{cname}: expected a list of mapsets, got {type(val).__name__}")
                return out
            for s in val:
                sa = alpha_mapset(s)
                tgt_maps += [(m, sa) for m in sa["maps"]]
            regs = [(s, "mapset") for s in val]
        elif tk == "mapset_merged":
            sa = alpha_mapset(val)
            tgt_maps = [(m, sa) for m in sa["maps"]]
            regs = [(val, "mapset")]
        if len(tgt_maps) != len(src_maps):
            out.fail("C08", "I3.convert", f"{cname}: {len(tgt_maps)} target charts for {len(src_maps)} source charts")
        for i, ((ta, tsa), sa_) in enumerate(zip(tgt_maps, src_maps)):
            what = f"chart {i}: " if len(src_maps) > 1 else ""
            want_cls = fields.map_class(tg).__name__
            if ta["cls"] != want_cls:
                out.fail("C08", "I3.convert", f"{cname}: {what}result is a {ta['cls']}, expected {want_cls}")
                continue
            _check_converted_map(out, cname, sa_, ta, eff_shift, sg, tg, what)
            # ---- metadata
            st, sa2 = _src_title_artist(sg, sa_, src_set)
            tt, ta2 = _tgt_title_artist(tg, ta, tsa)
            if not eqv(norm(tt), norm(st)):
                out.fail("C08", "I3.convert.meta", f"{cname}: {what}title {tt!r} != source {st!r}")
            if not eqv(norm(ta2), norm(sa2)):
                out.fail("C08", "I3.convert.meta", f"{cname}: {what}artist {ta2!r} != source {sa2!r}")
            if sg in _CREATOR and tg in _CREATOR:
                sv = (src_set or sa_)["meta"].get(_CREATOR[sg])
                tv = (tsa or ta)["meta"].get(_CREATOR[tg])
                if not eqv(tv, sv):
                    out.fail("C08", "I3.convert.meta", f"{cname}: {what}creator {tv!r} != source {sv!r}")
            if sg == "o2j" and tg in _DIFF and src_set is not None and not cname.endswith(".merge"):
                # an O2Jam chart's difficulty name is its level number in the set header: the i-th target chart is named after
                # the i-th level (the wording around the number is the converter's own)
                import re as _re

                lv = (src_set["meta"].get("level") or [])
                if i < len(lv) and isinstance(lv[i], (int, float)) and lv[i] is not NAN:
                    tv = _sjis(ta["meta"].get(_DIFF[tg]))
                    toks = _re.findall(r"-?\d+", tv if isinstance(tv, str) else "")
                    if str(int(lv[i])) not in toks:
                        out.fail("C08", "I3.convert.meta", f"{cname}: {what}difficulty name {tv!r} does not carry the source level {int(lv[i])} "
                                                           f"(levels of the set: {list(lv)[:3]})")
            if sg in _DIFF and tg in _DIFF:
                sv = _sjis(sa_["meta"].get(_DIFF[sg]))
                tv = _sjis(ta["meta"].get(_DIFF[tg]))
                if not eqv(tv, sv):
                    out.fail("C08", "I3.convert.meta", f"{cname}: {what}difficulty name {tv!r} != source {sv!r}")
        outs = op.get("outs", [])
        # C09 lineage: a source read from a file and untouched since carries the file's denotation along
        from ..snap import snapshot, digest

        src_den = h.meta.get("src_den")
        fresh = src_den is not None and h.meta.get("lineage_snap") == digest(snapshot(h.kind, h.obj))
        for j, ((obj, kind), name) in enumerate(zip(regs, outs)):
            meta = dict(keys=h.meta.get("keys", 4), copy_of="convert", converted=True)
            if fresh:
                meta["pipeline"] = dict(src_game=h.meta["src_game"], src_den=src_den, conv=cname, index=j if len(regs) > 1 else 0,
                                        shift=eff_shift, snap=digest(snapshot(kind, obj)))
            out.new.append((name, kind, obj, None, tg, meta))
        out.note = ("convert", cname, len(tgt_maps))
        hist = h.meta.get("hist", ())
        out.probes.append("convert_" + cname)
        for ma in src_maps:
            if not ma["lists"]["holds"]["rows"]:
                out.probes.append("convert_empty_holds")
                break
        mobjs = [h.obj] if sk == "map" else list(h.obj.maps)
        for mo in mobjs:
            for tl in mo.objs.values():
                n = len(tl.df)
                if n and list(tl.df.index) != list(range(n)):
                    out.probes.append("convert_nondefault_labels")
                    return out
        return out
