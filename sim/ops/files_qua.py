"""Quaver file <-> chart (C06): library plumbing and oracles."""
from __future__ import annotations

import math

from ..ref import qua as ref_qua
from ..ref.common import first_mismatch, lt, relclose
from ..values import NAN, eqv, norm
from .files import GameIO, game_io


def _num_ok(v) -> bool:
    return isinstance(v, (int, float)) and not isinstance(v, bool) and v == v and not math.isinf(v)


def _rows(a, key):
    return a["lists"][key]["rows"]


def _ks(v):
    return norm(v) if v is not None else ()


from .files import tie_order as _tie_order  # noqa: E402


@game_io
class QuaIO(GameIO):
    name = "qua"
    kind = "map"
    prop_read = "C06"
    prop_write = "C06"
    ext = ".qua"

    def ref(self):
        return ref_qua

    def read(self, path, layout=None):
        from reamber.quaver.QuaMap import QuaMap

        return QuaMap.read_file(path)

    def read_api(self, data, layout=None, raw_newlines=False):
        from reamber.quaver.QuaMap import QuaMap

        text = data.decode("utf8")
        if not raw_newlines:
            text = text.replace("\r\n", "\n")
        return QuaMap.read(text if len(data) % 2 else text.split("\n"))

    def write_api(self, obj, layout=None):
        return obj.write()

    def api_bytes(self, raw):
        if not isinstance(raw, str):
            return None, f"write() returned a {type(raw).__name__}, not a text"
        return raw.encode("utf8"), ""

    def write(self, obj, path, layout=None):
        return obj.write_file(path)

    def writable(self, a, layout=None) -> str:
        need = dict(hits=("offset", "column", "keysounds"), holds=("offset", "column", "length", "keysounds"),
                    bpms=("offset", "bpm", "metronome"), svs=("offset", "multiplier"))
        for k, cols in need.items():
            for r in _rows(a, k):
                for c in cols:
                    if c not in r or r[c] is None or (r[c] is NAN and c != "keysounds"):
                        return f"{k} row lacks {c}"
                for c in ("offset", "length", "bpm", "multiplier"):
                    if c in cols and not _num_ok(r[c]):
                        return f"{k}.{c} not finite"
                if "column" in cols and not (_num_ok(r["column"]) and r["column"] >= 0 and float(r["column"]).is_integer()):
                    return "column not a non-negative integer"
        m = a["meta"]
        for f in ("audio_file", "background_file", "banner_file", "genre", "mode", "title", "artist", "source", "creator", "difficulty_name", "description"):
            if not isinstance(m.get(f), str):
                return f"metadata {f} is not a string"
        if not isinstance(m.get("tags"), tuple) or not all(isinstance(t, str) and t and " " not in t for t in m["tags"]):
            return "tags"
        return ""

    def cmp_read(self, den, a, layout=None) -> list[str]:
        out = []

        def note_ok(x, y):
            return eqv(x.get("offset", NAN), y["offset"]) and eqv(x.get("column", NAN), y["column"]) and _ks(x.get("keysounds")) == norm(y["keysounds"]) \
                and ("length" not in y or eqv(x.get("length", NAN), y["length"]))

        def val_ok(name):
            def ok(x, y):
                # an omitted Bpm / Multiplier key: the value is not judged (DESIGN §5 C06, ambiguous default)
                return eqv(x.get("offset", NAN), y["offset"]) and (y[name] is None or (_num_ok(x.get(name)) and x[name] == y[name]))
            return ok

        out.append(first_mismatch("hits read from the document", _rows(a, "hits"), den["hits"], note_ok, "read", "declared"))
        out.append(first_mismatch("holds read from the document", _rows(a, "holds"), den["holds"], note_ok, "read", "declared"))
        out.append(first_mismatch("timing points read from the document", _rows(a, "bpms"), den["bpms"], val_ok("bpm"), "read", "declared"))
        out.append(first_mismatch("scroll velocities read from the document", _rows(a, "svs"), den["svs"], val_ok("multiplier"), "read", "declared"))
        if not [x for x in out if x]:
            out.append(_tie_order(_rows(a, "svs"), den["svs"], "multiplier", "scroll velocities", "read", "the document lists"))
            out.append(_tie_order(_rows(a, "bpms"), den["bpms"], "bpm", "timing points", "read", "the document lists"))
        m = a["meta"]
        for f, v in den["meta"].items():
            if not eqv(m.get(f, NAN), norm(v)):
                out.append(f"metadata {f}: read {m.get(f)!r}, the document says {v!r}")
        return [x for x in out if x]

    def cmp_write(self, a, den, layout=None) -> list[str]:
        out = []

        def hit_ok(x, y):  # x file, y chart
            return eqv(x["column"], y["column"]) and lt(x["offset"], y["offset"], 1.0) and norm(x["keysounds"]) == _ks(y.get("keysounds"))

        def hold_ok(x, y):
            return hit_ok(x, y) and lt(x["offset"] + x["length"], y["offset"] + y["length"], 1.0)

        def val_ok(name):
            def ok(x, y):
                return lt(x["offset"], y["offset"], 1.0) and x[name] is not None and relclose(x[name], y[name], 1e-9)
            return ok

        out.append(first_mismatch("hits", den["hits"], _rows(a, "hits"), hit_ok, "in the written document", "in the chart"))
        out.append(first_mismatch("holds", den["holds"], _rows(a, "holds"), hold_ok, "in the written document", "in the chart"))
        out.append(first_mismatch("timing points", den["bpms"], _rows(a, "bpms"), val_ok("bpm"), "in the written document", "in the chart"))
        out.append(first_mismatch("scroll velocities", den["svs"], _rows(a, "svs"), val_ok("multiplier"), "in the written document", "in the chart"))
        if not [x for x in out if x]:
            out.append(_tie_order(den["svs"], _rows(a, "svs"), "multiplier", "scroll velocities", "the written document lists", "the chart lists"))
            out.append(_tie_order(den["bpms"], _rows(a, "bpms"), "bpm", "timing points", "the written document lists", "the chart lists"))
        m = a["meta"]
        for f, v in den["meta"].items():
            if f == "song_preview_time":
                if not (_num_ok(v) and _num_ok(m.get(f)) and lt(v, m[f], 1.0)):
                    out.append(f"metadata {f}: document says {v!r}, chart has {m.get(f)!r}")
            elif not eqv(norm(v), m.get(f, NAN)):
                out.append(f"metadata {f}: document says {v!r}, chart has {m.get(f)!r}")
        for k, f in ref_qua.META.items():
            if f not in den["meta"]:
                out.append(f"metadata key {k} is missing from the written document")
        return [x for x in out if x]

    def cmp_gen(self, dk, d1) -> list[str]:
        out = []

        def note_ok(x, y):
            return x["offset"] == y["offset"] and x["column"] == y["column"] and norm(x["keysounds"]) == norm(y["keysounds"]) and x.get("length") == y.get("length")

        def val_ok(name):
            def ok(x, y):
                return x["offset"] == y["offset"] and ((x[name] is None and y[name] is None) or (x[name] is not None and y[name] is not None and relclose(x[name], y[name], 1e-9)))
            return ok

        out.append(first_mismatch("hits", dk["hits"], d1["hits"], note_ok, "later", "first"))
        out.append(first_mismatch("holds", dk["holds"], d1["holds"], note_ok, "later", "first"))
        out.append(first_mismatch("timing points", dk["bpms"], d1["bpms"], val_ok("bpm"), "later", "first"))
        out.append(first_mismatch("scroll velocities", dk["svs"], d1["svs"], val_ok("multiplier"), "later", "first"))
        for f, v in d1["meta"].items():
            if norm(dk["meta"].get(f)) != norm(v):
                out.append(f"metadata {f}: {dk['meta'].get(f)!r} vs first generation {v!r}")
        return [x for x in out if x]


def _qua_pipeline_valid(self, doc, c) -> str:
    from .files_osu import _grid_ok

    keys = {"Keys4": 4, "Keys7": 7, "Keys8": 8}.get(doc["meta"].get("Mode"), 4)
    if keys not in c.get("keys", [keys]):
        return "key count"
    if not doc["objs"] or max(o["Lane"] for o in doc["objs"]) != keys:
        return "last lane unused"
    if any("Bpm" not in t for t in doc["tps"]) or not doc["tps"]:
        return "tempo point without Bpm"
    if any(isinstance(v, str) and ("\n" in v or "\r" in v) for v in doc["meta"].values()):
        return "line break inside a header value"
    if c.get("grid"):
        tempo = sorted((t.get("StartTime", 0), t["Bpm"]) for t in doc["tps"])
        if c.get("t0_zero") and tempo[0][0] != 0:
            return "first tempo point not at 0"
        times = [o.get("StartTime", 0) for o in doc["objs"]] + [o["EndTime"] for o in doc["objs"] if "EndTime" in o]
        return _grid_ok(tempo, times)
    return ""


QuaIO.valid_pipeline_doc = _qua_pipeline_valid
