"""C09: read -> convert -> write.  The oracle consults ONLY the two reference
interpretations (source bytes, target bytes); in-memory objects are not looked at,
so compensating defects in a reader and a writer cannot cancel."""
from __future__ import annotations

from ..ref.common import first_mismatch, ftol, near
from .files_sm import timeline, active


def _by_time(it):
    """stable: among tempo changes at one time the one that comes later in the file is the one in force"""
    return sorted(it, key=lambda x: x[0])


def neutral(game: str, den: dict, index: int = 0) -> dict:
    """game-neutral chart: hits [(t, col)], holds [(t, col, end)], tempo [(t, bpm)] (floats)"""
    if game in ("osu", "qua"):
        return dict(
            hits=[(float(h["offset"]), int(h["column"])) for h in den["hits"]],
            holds=[(float(h["offset"]), int(h["column"]), float(h["offset"]) + float(h["length"])) for h in den["holds"]],
            tempo=_by_time((float(b["offset"]), float(b["bpm"])) for b in den["bpms"] if b.get("bpm") is not None))
    if game == "sm":
        c = den["charts"][index]
        return dict(
            hits=[(float(h["offset"]), int(h["column"])) for h in c["hits"]],
            holds=[(float(h["offset"]), int(h["column"]), float(h["end"])) for h in c["holds"]],
            tempo=_by_time((float(b["offset"]), float(b["bpm"])) for b in den["bpms"]),
            other=sum(len(c[k]) for k in ("rolls", "mines", "lifts", "fakes", "keysounds")))
    if game == "bms":
        from ..ref.bms import ms_of_beat

        return dict(
            hits=[(float(h["offset"]), int(h["column"])) for h in den["hits"]],
            holds=[(float(h["offset"]), int(h["column"]), float(h["end"])) for h in den["holds"]],
            tempo=_by_time((float(ms_of_beat(b, den["segs"])), float(v)) for b, v in den["segs"]))
    if game == "o2j":
        lv = den["levels"][index]
        t = [(0.0, float(den["header"]["bpm"]))] + [(float(b["offset"]), float(b["bpm"])) for b in lv["bpms"]]
        return dict(
            hits=[(float(h["offset"]), int(h["column"])) for h in lv["hits"]],
            holds=[(float(h["offset"]), int(h["column"]), float(h["end"])) for h in lv["holds"]],
            tempo=_by_time(t))
    raise KeyError(game)


def merged(tempo):
    """drop changes that repeat the active value; keep the last of several at one time"""
    out = []
    for t, v in tempo:
        if out and abs(out[-1][0] - t) < 1e-9:
            out[-1] = (t, v)
            continue
        if out and abs(out[-1][1] - v) <= 1e-9 * max(1.0, abs(v)):
            continue
        out.append((t, v))
    # second pass: the replacement above may have produced a repeat
    res = []
    for t, v in out:
        if res and abs(res[-1][1] - v) <= 1e-9 * max(1.0, abs(v)):
            continue
        res.append((t, v))
    return res


def resolution(game: str, tl, t: float) -> float:
    """time resolution of a format at time t (Appendix B)"""
    if game in ("osu", "qua"):
        return 1.0
    if not tl:
        return 1.0
    k = active(tl, t)
    lens = [60000.0 / tl[j][1] for j in range(max(0, k - 1), min(len(tl), k + 2))]
    if game == "sm":
        return max(lens) / 96.0 + ftol(t)
    if game == "bms":
        return max(lens) / 192.0 + ftol(t)
    return 4 * ftol(t)


def cmp_pipeline(pl: dict, tgt_game: str, tgt_den: dict, layout=None) -> list[str]:
    src = neutral(pl["src_game"], pl["src_den"], pl.get("index", 0))
    tgt = neutral(tgt_game, tgt_den, 0)
    shift = pl.get("shift", 0)
    tl = timeline([dict(offset=t, bpm=v) for t, v in src["tempo"]]) if src["tempo"] else []

    def tol(t):
        return max(resolution(pl["src_game"], tl, t), resolution(tgt_game, tl, t))

    out = []
    what = f"{pl['conv']}: "
    out.append(first_mismatch(
        what + "notes", tgt["hits"], src["hits"],
        lambda x, y: x[1] == y[1] + shift and near(x[0], y[0], tol(y[0])),
        "in the target file", "in the source file"))
    out.append(first_mismatch(
        what + "long notes", tgt["holds"], src["holds"],
        lambda x, y: x[1] == y[1] + shift and near(x[0], y[0], tol(y[0])) and near(x[2], y[2], tol(y[2])),
        "in the target file", "in the source file"))
    # tempo timeline: which bpm is in force at which time.  A segment shorter than twice the resolution cannot be
    # told apart at that resolution, so each file's longer segments are sampled at their midpoint in the other file.
    a, b = merged(tgt["tempo"]), merged(src["tempo"])

    def at(tempo, t):
        cur = None
        for x, v in tempo:
            if x <= t:
                cur = v
        return cur

    def probe(A, B, la, lb):
        for i, (t, v) in enumerate(A):
            nxt = A[i + 1][0] if i + 1 < len(A) else None
            d = tol(t)
            if nxt is not None and nxt - t <= 2 * d + 2 * (tol(nxt)):
                continue
            mid = (t + nxt) / 2 if nxt is not None else t + 2 * d + 1.0
            w = at(B, mid)
            if w is None or abs(w - v) > 1e-6 * max(1.0, abs(v)):
                return f"{what}tempo timeline: {la} has {v} bpm in force at {mid} ms (segment from {t}), {lb} has {w}"
        return ""

    if a or b:
        out.append(probe(b, a, "the source file", "the target file") or probe(a, b, "the target file", "the source file"))
    return [x for x in out if x]
