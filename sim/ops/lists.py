"""List operations (property C16; frame conditions C14)."""
from __future__ import annotations

import operator

import numpy as np
import pandas as pd

from .. import fields
from ..engine import OpSpec, Outcome, lib_call, HarnessError
from ..snap import alpha_list, alpha_item
from ..values import eqv, norm, NAN
from . import register

ARITH = {"+": operator.iadd, "-": operator.isub, "*": operator.imul, "/": operator.itruediv}
ARITH_PURE = {"+": operator.add, "-": operator.sub, "*": operator.mul, "/": operator.truediv}


# ------------------------------------------------------------------ helpers

def rows_eq(a: list[dict], b: list[dict], cols=None) -> str:
    """'' if the two row sequences are equal by value, else a message."""
    if len(a) != len(b):
        return f"length {len(a)} != expected {len(b)}"
    for i, (x, y) in enumerate(zip(a, b)):
        ks = cols if cols is not None else sorted(set(x) | set(y))
        for k in ks:
            if not eqv(x.get(k, NAN), y.get(k, NAN)):
                return f"row {i} field {k!r}: got {x.get(k, NAN)!r}, expected {y.get(k, NAN)!r}"
    return ""


def _key(row, cols):
    return tuple(repr(row.get(c, NAN)) if not isinstance(row.get(c, NAN), (int, float, bool)) else repr(float(row.get(c))) for c in cols)


def multiset_eq(a: list[dict], b: list[dict]) -> str:
    if len(a) != len(b):
        return f"length {len(a)} != expected {len(b)}"
    cols = sorted({k for r in a + b for k in r})
    ka = sorted(_key(r, cols) for r in a)
    kb = sorted(_key(r, cols) for r in b)
    if ka != kb:
        for x, y in zip(ka, kb):
            if x != y:
                return f"multisets differ: got {x} expected {y} (cols {cols})"
    return ""


def monotone(rows, reverse=False) -> bool:
    off = [r["offset"] for r in rows]
    if any(o is NAN for o in off):
        return True  # a missing time has no place in an order: not judged

    if reverse:
        return all(off[i] >= off[i + 1] for i in range(len(off) - 1))
    return all(off[i] <= off[i + 1] for i in range(len(off) - 1))


def check_fields(out: Outcome, cls: str, cols, inv: str, how: str):
    want = set(fields.declared(cls))
    got = set(cols)
    tol = fields.TOLERATED_EXTRA_FROM_ITEMS.get(cls, set()) if how in ("items", "single_item") else set()
    if got - tol != want:
        out.fail("C16", inv, f"{cls} built by {how}: fields {sorted(got)} != declared {sorted(want)}")


def item_row_ok(item_row: dict, row: dict, cols) -> str:
    for c in cols:
        if c not in item_row:
            return f"item lacks field {c!r}"
        if not eqv(item_row[c], row.get(c, NAN)):
            return f"item field {c!r}: got {item_row[c]!r}, expected {row.get(c)!r}"
    return ""


def make_item(cls: str, row: dict):
    ic = fields.item_class(cls)
    return ic(**{k: (list(v) if isinstance(v, tuple) else v) for k, v in row.items()})


def unexpected(out: Outcome, prop: str, inv: str, what: str, res):
    out.fail(prop, inv, f"{what} raised {res.exc_name}: {str(res.exc)[:300]} at {res.where}")


# ------------------------------------------------------------------ constructors

@register
class ListNew(OpSpec):
    name = "list.new"
    operand_keys = ()

    def run(self, sess, op):
        out = Outcome()
        cls, how = op["cls"], op["how"]
        L = fields.list_class(cls)
        rows = [dict(r) for r in op.get("rows", [])]
        for r in rows:
            for k, v in list(r.items()):
                if isinstance(v, tuple):
                    r[k] = list(v)
        if how == "items":
            res = lib_call(lambda: L([make_item(cls, r) for r in rows]))
        elif how == "single_item":
            res = lib_call(lambda: L(make_item(cls, rows[0])))
        elif how == "dict_rows":
            res = lib_call(lambda: L.from_dict(rows))
        elif how == "dict_cols":
            ks = list(rows[0].keys()) if rows else []
            res = lib_call(lambda: L.from_dict({k: [r[k] for r in rows] for k in ks}))
        elif how == "empty":
            res = lib_call(lambda: L.empty(op["n"]))
        elif how == "df":
            df = pd.DataFrame(rows) if rows else None
            res = lib_call(lambda: L(df) if df is not None else L([]))
        else:
            raise HarnessError(how)
        inv = f"I3.list.new.{how}"
        if not res.ok:
            unexpected(out, "C16", inv, f"{cls} construction ({how})", res)
            return out
        tl = res.value
        a = alpha_list(tl)
        if how in ("items", "single_item", "dict_rows", "dict_cols", "empty"):
            check_fields(out, cls, a["cols"], inv, how)
        if how == "empty":
            if len(a["rows"]) != op["n"]:
                out.fail("C16", inv, f"{cls}.empty({op['n']}) has {len(a['rows'])} rows")
            # whether the default cells hold values is C08's "no missing values", not C16's "exactly the declared fields"
        else:
            exp = [{k: norm(v) for k, v in r.items()} for r in (rows[:1] if how == "single_item" else rows)]
            given = sorted({k for r in exp for k in r})
            m = rows_eq(a["rows"], exp, cols=given)
            if m:
                out.fail("C16", inv, f"{cls} built by {how}: {m}")
        out.new.append((op["out"], "list", tl, None, fields.game_of_list(cls), dict(cls=cls, keys=op.get("keys", 4))))
        out.note = ("new", cls, how, len(a["rows"]))
        return out


@register
class ListWrap(OpSpec):
    name = "list.wrap"

    def run(self, sess, op):
        out = Outcome()
        h = sess.world.get(op["h"])
        L = type(h.obj)
        pre = alpha_list(h.obj)
        res = lib_call(lambda: L(h.obj))
        if not res.ok:
            unexpected(out, "C16", "I3.list.wrap", "TimedList(other)", res)
            return out
        m = rows_eq(alpha_list(res.value)["rows"], pre["rows"])
        if m:
            out.fail("C16", "I3.list.wrap", m)
        out.new.append((op["out"], "list", res.value, op["h"], h.game, dict(h.meta)))
        out.note = ("wrap", len(pre["rows"]))
        return out


# ------------------------------------------------------------------ queries

def _is_hold(h) -> bool:
    return fields.role(h.meta.get("cls", "TimedList")) == "hold"


@register
class ListQuery(OpSpec):
    """len / first_offset / last_offset / first_last_offset"""

    name = "list.query"

    def run(self, sess, op):
        out = Outcome()
        h = sess.world.get(op["h"])
        if _nan_times(h.obj):
            # a list holding a missing time (assigned through a stack on purpose): order and bounds are not defined for it
            out.skipped = True
            return out
        tl = h.obj
        rows = alpha_list(tl)["rows"]
        q = op["q"]
        hold = _is_hold(h)
        offs = [r["offset"] for r in rows]
        ends = [r["offset"] + r["length"] for r in rows] if hold else offs
        if q == "len":
            res = lib_call(lambda: len(tl))
            exp = len(rows)
        elif q == "first_offset":
            res = lib_call(tl.first_offset)
            exp = min(offs) if rows else None
        elif q == "last_offset":
            res = lib_call(tl.last_offset)
            exp = max(ends) if rows else None
        elif q == "first_last_offset":
            res = lib_call(tl.first_last_offset)
            exp = (min(offs), max(ends)) if rows else (None, None)
        else:
            raise HarnessError(q)
        inv = f"I3.list.{q}"
        if not rows and hold and q in ("last_offset", "first_last_offset"):
            # HoldList on empty: base returns None, max([]) raises -- ambiguous, not judged
            out.note = (q, "empty-hold")
            out.probes.append("query_empty_hold_not_judged")
            return out
        if not res.ok:
            unexpected(out, "C16", inv, q, res)
            return out
        got = norm(res.value)
        if not eqv(got, norm(exp)):
            out.fail("C16", inv, f"{q}: got {got!r}, expected {norm(exp)!r}")
        out.note = (q, got)
        if not rows:
            out.probes.append("query_on_empty")
        return out


@register
class ListGetInt(OpSpec):
    name = "list.get_int"

    def run(self, sess, op):
        out = Outcome()
        h = sess.world.get(op["h"])
        tl = h.obj
        a = alpha_list(tl)
        i = op["i"]
        n = len(a["rows"])
        if op.get("np_int"):
            import numpy as np

            ix = np.int64(i)  # an index that came out of numpy / pandas arithmetic
            out.probes.append("get_int_numpy_integer")
        else:
            ix = i
        res = lib_call(lambda: tl[ix])
        in_range = -n <= i < n
        if not in_range:
            if res.ok:
                out.fail("C16", "I3.list.get_int", f"tl[{i}] on {n} rows returned a value instead of raising IndexError")
            elif not isinstance(res.exc, IndexError):
                unexpected(out, "C16", "I3.list.get_int", f"tl[{i}] (out of range)", res)
            out.note = ("get_int", "oor")
            out.probes.append("get_int_out_of_range")
            return out
        if not res.ok:
            unexpected(out, "C16", "I3.list.get_int", f"tl[{i}]", res)
            return out
        it = alpha_item(res.value)
        m = item_row_ok(it["row"], a["rows"][i], a["cols"])
        if m:
            out.fail("C16", "I3.list.get_int", f"tl[{i}]: {m}")
        if i < 0:
            out.probes.append("get_int_negative")
        if list(tl.df.index) != list(range(n)):
            out.probes.append("get_int_nondefault_labels")
        if op.get("out"):
            out.new.append((op["out"], "item", res.value, None, h.game, dict(cls=h.meta.get("cls"))))
        out.note = ("get_int", i)
        return out


@register
class ListGetSlice(OpSpec):
    name = "list.get_slice"

    def run(self, sess, op):
        out = Outcome()
        h = sess.world.get(op["h"])
        tl = h.obj
        a = alpha_list(tl)
        sl = slice(op.get("a"), op.get("b"), op.get("s"))
        res = lib_call(lambda: tl[sl])
        if not res.ok:
            unexpected(out, "C16", "I3.list.get_slice", f"tl[{sl}]", res)
            return out
        if type(res.value) is not type(tl):
            out.fail("C16", "I3.list.get_slice", f"slice returned {type(res.value).__name__}")
            return out
        m = rows_eq(alpha_list(res.value)["rows"], a["rows"][sl])
        if m:
            out.fail("C16", "I3.list.get_slice", f"tl[{op.get('a')}:{op.get('b')}:{op.get('s')}]: {m}")
        out.new.append((op["out"], "list", res.value, op["h"], h.game, dict(h.meta)))
        out.note = ("slice", len(a["rows"][sl]))
        if list(tl.df.index) != list(range(len(a["rows"]))):
            out.probes.append("slice_nondefault_labels")
        return out


@register
class ListGetMask(OpSpec):
    name = "list.get_mask"

    def run(self, sess, op):
        out = Outcome()
        h = sess.world.get(op["h"])
        tl = h.obj
        a = alpha_list(tl)
        mask = list(op["mask"])
        if len(mask) != len(a["rows"]):
            out.skipped = True
            return out
        form = op.get("form", "list")
        if form == "list":
            key = mask
        elif form == "array":
            key = np.array(mask, dtype=bool)
        else:
            key = pd.Series(mask, index=tl.df.index, dtype=bool)
        res = lib_call(lambda: tl[key])
        if not res.ok:
            unexpected(out, "C16", "I3.list.get_mask", "tl[bool mask]", res)
            return out
        exp = [r for r, k in zip(a["rows"], mask) if k]
        m = rows_eq(alpha_list(res.value)["rows"], exp)
        if m:
            out.fail("C16", "I3.list.get_mask", m)
        out.new.append((op["out"], "list", res.value, None, h.game, dict(h.meta)))
        out.note = ("mask", len(exp))
        return out


@register
class ListIter(OpSpec):
    name = "list.iter"

    def run(self, sess, op):
        out = Outcome()
        h = sess.world.get(op["h"])
        tl = h.obj
        a = alpha_list(tl)
        res = lib_call(lambda: list(tl))
        if not res.ok:
            unexpected(out, "C16", "I3.list.iter", "iteration", res)
            return out
        items = res.value
        if len(items) != len(a["rows"]):
            out.fail("C16", "I3.list.iter", f"iteration yields {len(items)} items for {len(a['rows'])} rows")
            return out
        dec = [c for c in fields.declared(h.meta.get("cls", "TimedList")) if c in a["cols"]]
        ic = fields.item_class(h.meta["cls"]) if h.meta.get("cls") in fields.LISTS else None
        for i, (it, row) in enumerate(zip(items, a["rows"])):
            if ic is not None and type(it) is not ic:
                out.fail("C16", "I3.list.iter", f"item {i} has type {type(it).__name__}, expected {ic.__name__}")
                break
            m = item_row_ok(alpha_item(it)["row"], row, dec)
            if m:
                out.fail("C16", "I3.list.iter", f"item {i}: {m}")
                break
        out.note = ("iter", len(items))
        return out


# ------------------------------------------------------------------ producers of new lists

@register
class ListSorted(OpSpec):
    name = "list.sorted"

    def run(self, sess, op):
        out = Outcome()
        h = sess.world.get(op["h"])
        if _nan_times(h.obj):
            # a list holding a missing time (assigned through a stack on purpose): order and bounds are not defined for it
            out.skipped = True
            return out
        tl = h.obj
        a = alpha_list(tl)
        rev = bool(op.get("reverse", False))
        res = lib_call(lambda: tl.sorted(rev) if rev else tl.sorted())
        if not res.ok:
            unexpected(out, "C16", "I3.list.sorted", "sorted", res)
            return out
        got = alpha_list(res.value)["rows"]
        m = multiset_eq(got, a["rows"])
        if m:
            out.fail("C16", "I3.list.sorted", f"not a permutation of the input: {m}")
        elif not monotone(got, rev):
            out.fail("C16", "I3.list.sorted", f"not monotone in offset (reverse={rev}): {[r['offset'] for r in got]}")
        out.new.append((op["out"], "list", res.value, None, h.game, dict(h.meta)))
        out.note = ("sorted", rev, len(got))
        return out


@register
class ListAppend(OpSpec):
    name = "list.append"
    operand_keys = ("h", "x")

    def run(self, sess, op):
        out = Outcome()
        h = sess.world.get(op["h"])
        x = sess.world.get(op["x"])
        tl = h.obj
        a = alpha_list(tl)
        form = op.get("form", "obj")
        sort = bool(op.get("sort", False))
        if x.kind == "item":
            xr = [alpha_item(x.obj)["row"]]
            xcols = list(xr[0].keys())
            val = x.obj if form == "obj" else x.obj.data
        elif x.kind == "list":
            xa = alpha_list(x.obj)
            xr, xcols = xa["rows"], xa["cols"]
            val = x.obj if form == "obj" else x.obj.df
        else:
            out.skipped = True
            return out
        res = lib_call(lambda: tl.append(val, sort=sort) if sort else tl.append(val))
        if not res.ok:
            unexpected(out, "C16", "I3.list.append", f"append({x.kind}/{form})", res)
            return out
        cols = list(a["cols"]) + [c for c in xcols if c not in a["cols"]]
        exp = [{c: r.get(c, NAN) for c in cols} for r in a["rows"] + xr]
        got = alpha_list(res.value)["rows"]
        if sort:
            m = multiset_eq(got, exp)
            if not m and not monotone(got):
                m = "append(sort=True) result not monotone in offset"
        else:
            m = rows_eq(got, exp)
        if m:
            out.fail("C16", "I3.list.append", f"append({x.kind}/{form}, sort={sort}): {m}")
        if type(res.value) is not type(tl):
            out.fail("C16", "I3.list.append", f"append returned {type(res.value).__name__}")
        out.new.append((op["out"], "list", res.value, None, h.game, dict(h.meta)))
        out.note = ("append", x.kind, form, sort, len(got))
        if not a["rows"]:
            out.probes.append("append_to_empty")
        return out


def _nan_times(tl) -> bool:
    try:
        df = tl.df
        return any(c in df.columns and bool(df[c].isna().any()) for c in ("offset", "length"))
    except Exception:
        return False


def _pred_after(row, off, inc, hold, tail):
    o, ln = row["offset"], (row["length"] if (hold and tail) else 0)
    if o is NAN or ln is NAN:
        return False  # a missing time compares false with every bound (a row of a plain sequence holding NaN does too)
    t = o + ln
    return t >= off if inc else t > off


def _pred_before(row, off, inc, hold, head):
    o, ln = row["offset"], (row["length"] if (hold and not head) else 0)
    if o is NAN or ln is NAN:
        return False
    t = o + ln
    return t <= off if inc else t < off


@register
class ListFilter(OpSpec):
    """after / before / between with inclusive flags and the hold head/tail variants"""

    name = "list.filter"

    def run(self, sess, op):
        out = Outcome()
        h = sess.world.get(op["h"])
        if _nan_times(h.obj):
            # a list holding a missing time (assigned through a stack on purpose): order and bounds are not defined for it
            out.skipped = True
            return out
        tl = h.obj
        a = alpha_list(tl)
        hold = _is_hold(h)
        f = op["f"]
        kw = {}
        if f == "after":
            off, inc = op["lo"], bool(op["inc_lo"])
            tail = bool(op.get("tail", False))
            if hold and "tail" in op:
                kw["include_tail"] = tail
            res = lib_call(lambda: tl.after(off, inc, **kw))
            exp = [r for r in a["rows"] if _pred_after(r, off, inc, hold, tail)]
        elif f == "before":
            off, inc = op["hi"], bool(op["inc_hi"])
            head = bool(op.get("head", True))
            if hold and "head" in op:
                kw["include_head"] = head
            res = lib_call(lambda: tl.before(off, inc, **kw))
            exp = [r for r in a["rows"] if _pred_before(r, off, inc, hold, head)]
        elif f == "between":
            lo, hi = op["lo"], op["hi"]
            inc_lo, inc_hi = bool(op["inc_lo"]), bool(op["inc_hi"])
            tail = bool(op.get("tail", False))
            head = bool(op.get("head", True))
            if hold:
                if "tail" in op:
                    kw["include_tail"] = tail
                if "head" in op:
                    kw["include_head"] = head
                ends = (inc_lo, inc_hi)
            else:
                ends = inc_lo if (op.get("ends_as_bool") and inc_lo == inc_hi) else (inc_lo, inc_hi)
            if op.get("default_ends"):
                res = lib_call(lambda: tl.between(lo, hi, **kw))
                inc_lo, inc_hi = True, False
            else:
                res = lib_call(lambda: tl.between(lo, hi, ends, **kw))
            exp = [
                r for r in a["rows"]
                if _pred_after(r, lo, inc_lo, hold, tail) and _pred_before(r, hi, inc_hi, hold, head)
            ]
        else:
            raise HarnessError(f)
        inv = f"I3.list.{f}"
        if not res.ok:
            unexpected(out, "C16", inv, f, res)
            return out
        m = rows_eq(alpha_list(res.value)["rows"], exp)
        if m:
            out.fail("C16", inv, f"{f}({ {k: v for k, v in op.items() if k not in ('op', 'id', 'h', 'out')} }) on {'hold' if hold else 'timed'} list: {m}")
        if type(res.value) is not type(tl):
            out.fail("C16", inv, f"{f} returned {type(res.value).__name__}")
        offs = {r["offset"] for r in a["rows"]}
        ends_ = {r["offset"] + r["length"] for r in a["rows"] if r["offset"] is not NAN and r["length"] is not NAN} if hold else set()
        for b in (op.get("lo"), op.get("hi")):
            if b is not None and (b in offs or b in ends_):
                out.probes.append("filter_bound_equals_offset")
                break
        out.new.append((op["out"], "list", res.value, None, h.game, dict(h.meta)))
        out.note = (f, len(exp))
        return out


@register
class ListMove(OpSpec):
    """move_start_to / move_end_to: listed in C14 only (frame condition); the
    result is not judged beyond its length."""

    name = "list.move"

    def run(self, sess, op):
        out = Outcome(own_kind=False)
        h = sess.world.get(op["h"])
        if _nan_times(h.obj):
            # a list holding a missing time (assigned through a stack on purpose): order and bounds are not defined for it
            out.skipped = True
            return out
        tl = h.obj
        n = len(tl.df)
        if n == 0:
            out.skipped = True
            return out
        res = lib_call(lambda: tl.move_start_to(op["to"]) if op["which"] == "start" else tl.move_end_to(op["to"]))
        if not res.ok:
            unexpected(out, "C14", "I3.list.move", "move_" + op["which"] + "_to", res)
            return out
        if len(res.value) != n:
            out.fail("C14", "I3.list.move", f"move changed length {n} -> {len(res.value)}")
        out.new.append((op["out"], "list", res.value, None, h.game, dict(h.meta)))
        out.note = ("move", op["which"])
        return out


@register
class ListDeepcopy(OpSpec):
    name = "list.deepcopy"

    def run(self, sess, op):
        out = Outcome()
        h = sess.world.get(op["h"])
        pre = alpha_list(h.obj)
        res = lib_call(h.obj.deepcopy)
        if not res.ok:
            unexpected(out, "C14", "I3.list.deepcopy", "deepcopy", res)
            return out
        m = rows_eq(alpha_list(res.value)["rows"], pre["rows"])
        if m:
            out.fail("C14", "I3.list.deepcopy", m)
        out.new.append((op["out"], "list", res.value, None, h.game, dict(h.meta)))
        out.note = ("deepcopy", len(pre["rows"]))
        return out


# ------------------------------------------------------------------ mutating ops

def _apply(opr, a, v):
    return ARITH_PURE[opr](a, v)


@register
class ListColArith(OpSpec):
    """tl.<col> op= v   (documented in-place column arithmetic)"""

    name = "list.col_arith"

    def run(self, sess, op):
        out = Outcome(mutates=[op["h"]], own_kind=False)
        h = sess.world.get(op["h"])
        tl = h.obj
        a = alpha_list(tl)
        col, opr, v = op["col"], op["opr"], op["v"]
        if col not in a["cols"]:
            out.skipped = True
            out.mutates = None
            return out

        def do():
            setattr(tl, col, ARITH[opr](getattr(tl, col), v))

        res = lib_call(do)
        if not res.ok:
            unexpected(out, "C16", "I3.list.col_arith", f"tl.{col} {opr}= {v}", res)
            return out
        exp = [dict(r) for r in a["rows"]]
        for r in exp:
            r[col] = norm(_apply(opr, r[col], v))
        got = alpha_list(tl)
        m = rows_eq(got["rows"], exp)
        if m:
            out.fail("C16", "I3.list.col_arith", f"tl.{col} {opr}= {v}: {m}")
        out.note = ("col_arith", col, opr, len(exp))
        _stale_stackers(sess, op["h"])
        return out


@register
class ListSetItem(OpSpec):
    """tl[row, col_position] = v   (TimedList.__setitem__ -> iloc)"""

    name = "list.setitem"

    def run(self, sess, op):
        out = Outcome(mutates=[op["h"]], own_kind=False)
        h = sess.world.get(op["h"])
        tl = h.obj
        a = alpha_list(tl)
        i, col, v = op["i"], op["col"], op["v"]
        if col not in a["cols"] or not (0 <= i < len(a["rows"])):
            out.skipped = True
            out.mutates = None
            return out
        j = a["cols"].index(col)

        def do():
            tl[i, j] = v

        res = lib_call(do)
        if not res.ok:
            unexpected(out, "C16", "I3.list.setitem", f"tl[{i},{j}] = {v!r}", res)
            return out
        exp = [dict(r) for r in a["rows"]]
        exp[i][col] = norm(v)
        m = rows_eq(alpha_list(tl)["rows"], exp)
        if m:
            out.fail("C16", "I3.list.setitem", f"tl[{i},{col}] = {v!r}: {m}")
        out.note = ("setitem", i, col)
        _stale_stackers(sess, op["h"])
        return out


def _stale_stackers(sess, name):
    w = sess.world
    for n in w.alias_class(name):
        hd = w.h.get(n)
        if hd is not None and hd.kind == "stacker":
            w.stale.add(n)


# ------------------------------------------------------------------ tempo list queries (I1 only)

@register
class BpmQuery(OpSpec):
    name = "bpms.query"

    def run(self, sess, op):
        out = Outcome(own_kind=False)
        h = sess.world.get(op["h"])
        tl = h.obj
        rows = alpha_list(tl)["rows"]
        q = op["q"]
        if not rows:
            out.skipped = True
            return out
        if q == "current_bpm":
            res = lib_call(lambda: tl.current_bpm(op["t"]))
            if not res.ok and not isinstance(res.exc, IndexError):
                unexpected(out, "C14", "I3.bpms.query", q, res)
        elif q == "to_timing_map":
            if any(r["bpm"] <= 0 for r in rows):
                out.skipped = True
                return out
            res = lib_call(tl.to_timing_map)
            if not res.ok:
                unexpected(out, "C14", "I3.bpms.query", q, res)
        elif q == "ave_bpm":
            res = lib_call(lambda: tl.ave_bpm(op["t"]))
        elif q == "time_diff":
            res = lib_call(lambda: tl.time_diff(op.get("t")))
        elif q == "snap_offsets":
            if any(r["bpm"] <= 0 for r in rows) or len(rows) < 2:
                out.skipped = True
                return out
            span = max(r["offset"] for r in rows) - min(r["offset"] for r in rows)
            if span > 60000:
                out.skipped = True
                return out
            res = lib_call(lambda: tl.snap_offsets(op.get("nths", 1.0)))
        else:
            raise HarnessError(q)
        out.note = ("bpmq", q, res.ok)
        return out
