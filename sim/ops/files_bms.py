"""BMS read (C04) and write (C05): library plumbing and oracles."""
from __future__ import annotations

import math
from fractions import Fraction

from ..ref import bms as ref_bms
from ..ref.common import first_mismatch, ftol, near
from ..values import NAN, eqv, norm
from .files import GameIO, game_io
from .files_sm import on_grid, snap_frac, timeline, active, all_on_measure_lines, exact_slack


from .files_sm import GRID  # noqa: E402

GRID_SET = set(GRID)


def tempo_distance_off_grid(den) -> bool:
    """Some tempo change lies at a beat distance from the previous one that is not a fraction with a denominator
    <= 96 (the timing engine re-derives tempo-change positions from milliseconds by snapping to such fractions)."""
    bs = [b for b, _ in den["segs"]]
    for x, y in zip(bs, bs[1:]):
        d = y - x
        if (d - (d.numerator // d.denominator)).denominator > 96:
            return True
    return False


def _num_ok(v) -> bool:
    return isinstance(v, (int, float)) and not isinstance(v, bool) and v == v and not math.isinf(v)


def _rows(a, key):
    return a["lists"][key]["rows"]


def _dictify(v) -> dict:
    """alpha_meta normalises dicts into sorted tuples of pairs"""
    if isinstance(v, dict):
        return v
    if isinstance(v, tuple):
        try:
            return dict(v)
        except (TypeError, ValueError):
            return {}
    return {}


def layout_columns(layout: str) -> set:
    return set(ref_bms.LAYOUTS[layout].values())


@game_io
class BMSIO(GameIO):
    name = "bms"
    kind = "map"
    prop_read = "C04"
    prop_write = "C05"
    ext = ".bms"

    def ref(self):
        return ref_bms

    def parse(self, data, layout=None):
        return ref_bms.parse(data, layout or "BME")

    def _cfg(self, layout):
        from reamber.bms.BMSChannel import BMSChannel

        return getattr(BMSChannel, layout or "BME")

    def read(self, path, layout=None):
        from reamber.bms.BMSMap import BMSMap

        return BMSMap.read_file(path, note_channel_config=self._cfg(layout))

    def read_api(self, data, layout=None, raw_newlines=False):
        from reamber.bms.BMSMap import BMSMap

        text = data.decode("shift_jis")
        if not raw_newlines:
            text = text.replace("\r\n", "\n")
        return BMSMap.read(text.split("\n"), note_channel_config=self._cfg(layout))

    def write_api(self, obj, layout=None):
        return obj.write(note_channel_config=self._cfg(layout))

    def api_bytes(self, raw):
        if not isinstance(raw, (bytes, bytearray)):
            return None, f"write() returned a {type(raw).__name__}, not bytes"
        return bytes(raw), ""

    def write(self, obj, path, layout=None):
        return obj.write_file(path, note_channel_config=self._cfg(layout))

    def valid_doc(self, doc) -> str:
        return ""

    # -------------------------------------------------------------- C04
    def cmp_read(self, den, a, layout=None) -> list[str]:
        out = []
        if den["has_02"]:
            return out  # channel 02 is outside C04's quantifier
        out.append(first_mismatch(
            "hits", _rows(a, "hits"), den["hits"],
            lambda x, y: eqv(x.get("column", NAN), y["column"]) and _num_ok(x.get("offset")) and near(x["offset"], y["offset"], ftol(y["offset"]))
            and x.get("sample") == y["sample"], "read", "in the file"))
        out.append(first_mismatch(
            "holds", _rows(a, "holds"), den["holds"],
            lambda x, y: eqv(x.get("column", NAN), y["column"]) and _num_ok(x.get("offset")) and _num_ok(x.get("length"))
            and near(x["offset"], y["offset"], ftol(y["offset"])) and near(x["offset"] + x["length"], y["end"], 2 * ftol(y["end"]))
            and x.get("sample") == y["sample"], "read", "in the file"))
        m = a["meta"]
        hd = {k.upper(): v for k, v in den["headers"].items()}
        for key, fld in ((b"TITLE", "title"), (b"ARTIST", "artist"), (b"PLAYLEVEL", "version"), (b"LNOBJ", "ln_end_channel")):
            if key in hd and m.get(fld) != hd[key]:
                out.append(f"header {key.decode()}: read {m.get(fld)!r}, the file says {hd[key]!r}")
        ex = _dictify(m.get("exbpms"))
        for k, v in den["exbpms"].items():
            if k not in ex or not near(ex[k], v, 1e-9 * (1 + abs(float(v)))):
                out.append(f"extended tempo #BPM{k.decode()}: read {ex.get(k)!r}, the file says {float(v)!r}")
        sm = _dictify(m.get("samples"))
        for k, v in den["wavs"].items():
            if sm.get(k) != v:
                out.append(f"#WAV{k.decode()}: read {sm.get(k)!r}, the file says {v!r}")
        # command names are case-insensitive: a header is retained whatever the case it is kept under
        misc = {(k.upper() if isinstance(k, bytes) else k): v for k, v in _dictify(m.get("misc")).items()}
        for k, v in den["other"].items():
            if k.upper() in (b"TITLE", b"ARTIST", b"PLAYLEVEL", b"LNOBJ") or v == b"":
                continue
            if misc.get(k.upper()) != v:
                out.append(f"header #{k.decode('ascii', 'replace')} is not retained: read {misc.get(k)!r}, the file says {v!r}")
        bp = _rows(a, "bpms")
        if not bp:
            out.append("no tempo point read")
        out = [x for x in out if x]
        if out and tempo_distance_off_grid(den):
            out = ["[tempo-change-off-snap-grid] " + x for x in out]
        return out

    # -------------------------------------------------------------- C05 domain
    def writable(self, a, layout=None) -> str:
        cols_ok = layout_columns(layout or "BME")
        bp = _rows(a, "bpms")
        if not bp or len(bp) > 1295:
            return "tempo point count"
        for b in bp:
            if not (_num_ok(b.get("offset")) and _num_ok(b.get("bpm")) and b["bpm"] > 0 and eqv(b.get("metronome", NAN), 4)):
                return "tempo point out of domain"
            if abs(round(float(b["bpm"]), 3) - float(b["bpm"])) > 1e-12 and not self.structural_only:
                return "tempo value with more than 3 decimals"
        tl = timeline(bp)
        if len({t for t, _, _ in tl}) != len(tl):
            return "two tempo points at one time"
        if abs(tl[0][0]) > 1e-9:
            return "first tempo point not at 0 ms"
        if not all_on_measure_lines(tl):
            return "tempo point off a measure line"
        if tl[-1][2] >= 4000 - 1e-6:
            return "tempo point beyond measure 999 (the format has three measure digits)"
        m = a["meta"]
        lnobj = m.get("ln_end_channel")
        samples = _dictify(m.get("samples"))
        sem = not self.structural_only  # C14 writes: only the structural preconditions gate the op
        if sem and (not (isinstance(lnobj, bytes) and len(lnobj) == 2) or lnobj in samples or lnobj in (b"00", b"01")):
            return "LNOBJ id"
        for k, v in samples.items():
            if sem and not (isinstance(k, bytes) and len(k) == 2 and k != b"00" and isinstance(v, bytes) and v and b"\n" not in v and b"\r" not in v):
                return "sample table"
        if sem and len(set(samples.values())) != len(samples):
            return "sample table has duplicate files"
        for f in ("title", "artist", "version"):
            if sem and (not isinstance(m.get(f), bytes) or b"\n" in m[f] or b"\r" in m[f]):
                return f"header {f}"
        per_lane: dict[int, list] = {}
        for k in ("hits", "holds"):
            for r in _rows(a, k):
                if not (_num_ok(r.get("offset")) and r["offset"] >= 0 and _num_ok(r.get("column")) and float(r["column"]).is_integer() and int(r["column"]) in cols_ok):
                    return f"{k} row out of domain"
                if sem and not isinstance(r.get("sample"), bytes):
                    return "sample not bytes"
                t0 = float(r["offset"])
                if tl[-1][2] + (t0 + (float(r.get("length") or 0) if k == "holds" else 0) - tl[-1][0]) * tl[-1][1] / 60000.0 >= 4000 - 1e-6:
                    return "object beyond measure 999"
                if k == "holds":
                    if not (_num_ok(r.get("length")) and r["length"] > 0):
                        return "hold length"
                    per_lane.setdefault(int(r["column"]), []).append((t0, t0 + float(r["length"])))
                else:
                    per_lane.setdefault(int(r["column"]), []).append((t0, t0))
        contains = False
        for c, spans in per_lane.items():
            spans.sort()
            slots = []
            for s, e in spans:
                for t in ((s,) if s == e else (s, e)):
                    kk = active(tl, t)
                    slots.append(tl[kk][2] + float(snap_frac((t - tl[kk][0]) * tl[kk][1] / 60000.0)))
            if any(y - x < 1e-9 for x, y in zip(slots, slots[1:])):
                if len({round(x, 9) for x in slots}) == len(slots):
                    # every object has a slot of its own, but a long note contains another object of its lane: the #LNOBJ rule
                    # ("the head is the preceding object") cannot say that, so only conservation of objects is judged -
                    # provided NO lane has two objects in one slot (checked for all lanes before this reason is given)
                    contains = True
                    continue
                return "objects collide in a (lane, grid slot)"
        if contains:
            return "a long note contains another object of its lane"
        return ""

    # -------------------------------------------------------------- C05
    def cmp_write(self, a, den, layout=None) -> list[str]:
        out = []
        if den["has_02"]:
            out.append("the written file has channel-02 lines although every tempo point is 4/4")
        tl = timeline(_rows(a, "bpms"))
        samples = _dictify(a["meta"].get("samples"))
        known = set(samples.values())

        def tol(t):
            kk = active(tl, t)
            rel = (t - tl[kk][0]) * tl[kk][1] / 60000.0
            return 4 * ftol(t) + exact_slack(tl, t) if on_grid(rel, 1e-7) else (60000.0 / tl[kk][1]) / 192.0 + ftol(t)

        def smp(x, y):
            return y.get("sample") not in known or x["sample"] == y["sample"]

        nh, nl = len(_rows(a, "hits")), len(_rows(a, "holds"))
        if len(den["hits"]) != nh or len(den["holds"]) != nl:
            out.append(f"object count not conserved: file has {len(den['hits'])} notes and {len(den['holds'])} long notes, chart has {nh} hits and {nl} holds")
        out.append(first_mismatch(
            "hits", den["hits"], _rows(a, "hits"),
            lambda x, y: eqv(x["column"], y["column"]) and near(x["offset"], y["offset"], tol(y["offset"])) and smp(x, y),
            "in the written file", "in the chart"))
        out.append(first_mismatch(
            "holds", den["holds"], _rows(a, "holds"),
            lambda x, y: eqv(x["column"], y["column"]) and near(x["offset"], y["offset"], tol(y["offset"]))
            and near(x["end"], y["offset"] + y["length"], tol(y["offset"] + y["length"])) and smp(x, y),
            "in the written file", "in the chart"))
        # tempo timeline: the file's tempo segments (merged when a change repeats the same value) = the chart's
        fsegs = []
        for b, v in den["segs"]:
            if fsegs and fsegs[-1][1] == v:
                continue
            fsegs.append((ref_bms.ms_of_beat(b, den["segs"]), v))
        msegs = []
        for t, v, _ in tl:
            if msegs and abs(msegs[-1][1] - v) < 1e-12:
                continue
            msegs.append((t, v))
        out.append(first_mismatch(
            "tempo timeline", fsegs, msegs,
            lambda x, y: near(x[0], y[0], 4 * ftol(y[0])) and near(x[1], y[1], 1e-9 * (1 + abs(y[1]))),
            "segments in the written file", "segments in the chart"))
        return [x for x in out if x]

    def cmp_gen(self, dk, d1) -> list[str]:
        out = []
        # (a note also carries the sound its id names in the #WAV table: the two files must agree on that)
        out.append(first_mismatch("hits", dk["hits"], d1["hits"], lambda p, q: p["column"] == q["column"] and near(p["offset"], q["offset"], ftol(q["offset"]))
                                  and p.get("sample") == q.get("sample"), "later", "first"))
        out.append(first_mismatch("holds", dk["holds"], d1["holds"], lambda p, q: p["column"] == q["column"] and near(p["offset"], q["offset"], ftol(q["offset"]))
                                  and near(p["end"], q["end"], ftol(q["end"])) and p.get("sample") == q.get("sample"), "later", "first"))
        return [x for x in out if x]


def _bms_pipeline_valid(self, doc, c) -> str:
    lanes = ref_bms.LAYOUTS["BME"]
    cols = set()
    for m, ch, d in doc["lines"]:
        pairs = [d[i:i + 2] for i in range(0, len(d), 2)]
        if ch in (b"03", b"08") and any(p != b"00" for p in pairs[1:]):
            return "tempo change off a measure line"
        if ch in lanes and any(p != b"00" for p in pairs):
            cols.add(lanes[ch])
    if not cols or (max(cols) + 1) not in c.get("keys", [max(cols) + 1]):
        return "key count"
    return ""


BMSIO.valid_pipeline_doc = _bms_pipeline_valid
