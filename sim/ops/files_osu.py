"""osu!mania file <-> chart (C01): library plumbing and oracles."""
from __future__ import annotations

import math

from ..ref import osu as ref_osu
from ..ref.common import first_mismatch, lt, relclose, show
from ..values import NAN, eqv
from .files import GameIO, game_io, tie_order

NOTE_ATTRS = ("hitsound_set", "sample_set", "addition_set", "custom_set", "volume", "hitsound_file")
TP_ATTRS = ("sample_set", "sample_set_index", "volume", "kiai")


def _num_ok(v) -> bool:
    return isinstance(v, (int, float)) and not isinstance(v, bool) and v == v and not math.isinf(v)


def _attrs_eq(a, b, names) -> bool:
    return all(eqv(a.get(n, NAN), b.get(n, NAN)) for n in names)


def _rows(a, key):
    return a["lists"][key]["rows"]


def unq(s):
    return ref_osu.unquote(s) if isinstance(s, str) else s


# metadata fields compared after a WRITE (value space of the writer's format strings)
STR_FIELDS = ("audio_file_name", "title", "title_unicode", "artist", "artist_unicode", "creator", "version", "source",
              "background_file_name")
INT_FIELDS = ("audio_lead_in", "mode", "beat_divisor", "grid_size", "beatmap_id", "beatmap_set_id", "sample_set")
BOOL_FIELDS = ("countdown", "letterbox_in_breaks", "special_style", "widescreen_storyboard")
FLOAT_FIELDS = ("stack_leniency", "distance_spacing", "timeline_zoom", "hp_drain_rate", "circle_size", "overall_difficulty",
                "approach_rate", "slider_multiplier", "slider_tick_rate")


@game_io
class OsuIO(GameIO):
    name = "osu"
    kind = "map"
    prop_read = "C01"
    prop_write = "C01"
    ext = ".osu"

    def ref(self):
        return ref_osu

    def read(self, path, layout=None):
        from reamber.osu.OsuMap import OsuMap

        return OsuMap.read_file(path)

    def read_api(self, data, layout=None, raw_newlines=False):
        from reamber.osu.OsuMap import OsuMap

        text = data.decode("utf8")
        if not raw_newlines:
            text = text.replace("\r\n", "\n")
        return OsuMap.read(text.split("\n"))

    def write_api(self, obj, layout=None):
        return obj.write()

    def api_bytes(self, raw):
        if not isinstance(raw, list):
            return None, f"write() returned a {type(raw).__name__}, not a list of lines"
        for i, x in enumerate(raw):
            if not isinstance(x, str):
                return None, f"write() returned a list whose element {i} is {x!r} ({type(x).__name__}), not a line of text"
        return "\n".join(raw).encode("utf8"), ""

    def write(self, obj, path, layout=None):
        return obj.write_file(path)

    # -------------------------------------------------------------- domain
    def writable(self, a, layout=None) -> str:
        m = a["meta"]
        try:
            keys = int(m["circle_size"])
        except Exception:
            return "circle_size is not a number"
        if not (1 <= keys <= 18):
            return "key count outside 1..18"
        need = dict(hits=("offset", "column") + NOTE_ATTRS, holds=("offset", "column", "length") + NOTE_ATTRS,
                    bpms=("offset", "bpm", "metronome") + TP_ATTRS, svs=("offset", "multiplier") + TP_ATTRS)
        for k, cols in need.items():
            for r in _rows(a, k):
                for c in cols:
                    if c not in r or r[c] is NAN or r[c] is None:
                        return f"{k} row lacks {c}"
                for c in ("offset", "length", "bpm", "multiplier"):
                    if c in cols and not _num_ok(r[c]):
                        return f"{k}.{c} not finite"
                if "column" in cols and not (0 <= r["column"] < keys and float(r["column"]).is_integer()):
                    return "column outside the key count"
                for c in cols:
                    if c in ("hitsound_set", "sample_set", "addition_set", "custom_set", "volume", "sample_set_index", "metronome"):
                        if not _num_ok(r[c]) or not float(r[c]).is_integer():
                            return f"{k}.{c} is not integral"
                if k == "bpms" and r["bpm"] == 0:
                    return "bpm 0"
                if k == "svs" and r["multiplier"] == 0:
                    return "sv 0"
                if "hitsound_file" in cols and (not isinstance(r["hitsound_file"], str) or any(ch in r["hitsound_file"] for ch in ":,\n\r")):
                    return "hitsound_file with separators"
        for r in m["samples"]["rows"]:
            if not _num_ok(r.get("offset")) or not isinstance(r.get("sample_file"), str) or any(ch in r["sample_file"] for ch in ",\n\r"):
                return "sample event out of domain"
            if not _num_ok(r.get("volume")) or not float(r["volume"]).is_integer():
                return "sample volume"
        if not _num_ok(m.get("preview_time")):
            return "preview_time"
        return ""

    # -------------------------------------------------------------- read oracle
    def cmp_read(self, den, a, layout=None) -> list[str]:
        out = []
        m = a["meta"]
        if not eqv(int(m["circle_size"]), den["keys"]):
            out.append(f"key count {m['circle_size']!r}, the file says {den['keys']}")

        def note_ok(x, y):
            return eqv(x.get("offset", NAN), y["offset"]) and eqv(x.get("column", NAN), y["column"]) and _attrs_eq(x, y, NOTE_ATTRS) \
                and ("length" not in y or eqv(x.get("length", NAN), y["length"]))

        def tp_ok(val):
            def ok(x, y):
                return eqv(x.get("offset", NAN), y["offset"]) and _attrs_eq(x, y, TP_ATTRS) and _num_ok(x.get(val)) and relclose(x[val], y[val], 1e-12) \
                    and (val != "bpm" or eqv(x.get("metronome", NAN), y["metronome"]))
            return ok

        out.append(first_mismatch("hits read from the file", _rows(a, "hits"), den["hits"], note_ok, "read", "in the file"))
        out.append(first_mismatch("holds read from the file", _rows(a, "holds"), den["holds"], note_ok, "read", "in the file"))
        out.append(first_mismatch("tempo points read from the file", _rows(a, "bpms"), den["bpms"], tp_ok("bpm"), "read", "in the file"))
        out.append(first_mismatch("scroll velocities read from the file", _rows(a, "svs"), den["svs"], tp_ok("multiplier"), "read", "in the file"))
        if not [x for x in out if x]:
            # points on one time take effect in listing order: the last one stays in force
            out.append(tie_order(_rows(a, "svs"), den["svs"], "multiplier", "scroll velocities", "read", "the file lists", 1e-9))
            out.append(tie_order(_rows(a, "bpms"), den["bpms"], "bpm", "tempo points", "read", "the file lists", 1e-9))
        out.append(first_mismatch(
            "sample events read from the file", m["samples"]["rows"], den["samples"],
            lambda x, y: eqv(x.get("offset", NAN), y["offset"]) and unq(x.get("sample_file")) == y["sample_file"] and eqv(x.get("volume", NAN), y["volume"]),
            "read", "in the file"))
        for fld, v in den["meta"].items():
            got = m.get(fld, NAN)
            if isinstance(v, float) and isinstance(got, (int, float)) and not isinstance(got, bool):
                ok = relclose(got, v, 1e-12)
            else:
                ok = eqv(got, v)
            if not ok:
                out.append(f"metadata {fld}: read {got!r}, the file says {v!r}")
        return [x for x in out if x]

    # -------------------------------------------------------------- write oracle
    def cmp_write(self, a, den, layout=None) -> list[str]:
        out = []
        m = a["meta"]
        if int(m["circle_size"]) != den["keys"]:
            out.append(f"written key count {den['keys']}, chart has {m['circle_size']!r}")

        def hit_ok(x, y):  # x: file, y: chart
            return eqv(x["column"], y["column"]) and lt(x["offset"], y["offset"], 1.0) and _attrs_eq(x, y, NOTE_ATTRS)

        def hold_ok(x, y):
            return hit_ok(x, y) and lt(x["offset"] + x["length"], y["offset"] + y["length"], 1.0)

        def tp_ok(val, extra=()):
            def ok(x, y):
                return lt(x["offset"], y["offset"], 1.0) and relclose(x[val], y[val], 1e-9) and _attrs_eq(x, y, TP_ATTRS + tuple(extra))
            return ok

        out.append(first_mismatch("hits", den["hits"], _rows(a, "hits"), hit_ok, "in the written file", "in the chart"))
        out.append(first_mismatch("holds", den["holds"], _rows(a, "holds"), hold_ok, "in the written file", "in the chart"))
        out.append(first_mismatch("tempo points", den["bpms"], _rows(a, "bpms"), tp_ok("bpm", ("metronome",)), "in the written file", "in the chart"))
        out.append(first_mismatch("scroll velocities", den["svs"], _rows(a, "svs"), tp_ok("multiplier"), "in the written file", "in the chart"))
        if not [x for x in out if x]:
            out.append(tie_order(den["svs"], _rows(a, "svs"), "multiplier", "scroll velocities", "the written file lists", "the chart lists", 1e-9))
            out.append(tie_order(den["bpms"], _rows(a, "bpms"), "bpm", "tempo points", "the written file lists", "the chart lists", 1e-9))
        out.append(first_mismatch(
            "sample events", den["samples"], m["samples"]["rows"],
            lambda x, y: lt(x["offset"], y["offset"], 1.0) and x["sample_file"] == unq(y["sample_file"]) and eqv(x["volume"], y["volume"]),
            "in the written file", "in the chart"))
        fm = den["meta"]
        for f in STR_FIELDS:
            if f in fm and isinstance(m.get(f), str) and fm[f] != m[f].strip():
                out.append(f"metadata {f}: file says {fm[f]!r}, chart has {m[f]!r}")
        for f in INT_FIELDS + BOOL_FIELDS:
            if f in fm and not eqv(fm[f], m.get(f, NAN)):
                out.append(f"metadata {f}: file says {fm[f]!r}, chart has {m.get(f)!r}")
        for f in FLOAT_FIELDS:
            if f in fm and _num_ok(m.get(f)) and not relclose(fm[f], m[f], 1e-5):
                out.append(f"metadata {f}: file says {fm[f]!r}, chart has {m.get(f)!r}")
        if "preview_time" in fm and not lt(fm["preview_time"], m["preview_time"], 1.0):
            out.append(f"metadata preview_time: file says {fm['preview_time']!r}, chart has {m['preview_time']!r}")
        if "tags" in fm and isinstance(m.get("tags"), tuple) and tuple(fm["tags"]) != tuple(m["tags"]):
            out.append(f"metadata tags: file says {fm['tags']!r}, chart has {m['tags']!r}")
        for f in STR_FIELDS + INT_FIELDS + BOOL_FIELDS + FLOAT_FIELDS + ("preview_time", "tags"):
            if f not in fm and f != "background_file_name":
                out.append(f"metadata key for {f} is missing from the written file")
        return [x for x in out if x]

    # -------------------------------------------------------------- generations
    def cmp_gen(self, dk, d1) -> list[str]:
        out = []
        if dk["keys"] != d1["keys"]:
            out.append(f"key count {dk['keys']} vs {d1['keys']}")

        def note_ok(x, y):
            return x["offset"] == y["offset"] and x["column"] == y["column"] and _attrs_eq(x, y, NOTE_ATTRS) and x.get("length") == y.get("length")

        def tp_ok(val):
            def ok(x, y):
                return x["offset"] == y["offset"] and relclose(x[val], y[val], 1e-9) and _attrs_eq(x, y, TP_ATTRS) and x.get("metronome") == y.get("metronome")
            return ok

        out.append(first_mismatch("hits", dk["hits"], d1["hits"], note_ok, "later", "first"))
        out.append(first_mismatch("holds", dk["holds"], d1["holds"], note_ok, "later", "first"))
        out.append(first_mismatch("tempo points", dk["bpms"], d1["bpms"], tp_ok("bpm"), "later", "first"))
        out.append(first_mismatch("scroll velocities", dk["svs"], d1["svs"], tp_ok("multiplier"), "later", "first"))
        out.append(first_mismatch("sample events", dk["samples"], d1["samples"],
                                  lambda x, y: x == y, "later", "first"))
        for f, v in d1["meta"].items():
            w = dk["meta"].get(f)
            if isinstance(v, float) and isinstance(w, float):
                if not relclose(v, w, 1e-5):
                    out.append(f"metadata {f}: {w!r} vs first generation {v!r}")
            elif w != v:
                out.append(f"metadata {f}: {w!r} vs first generation {v!r}")
        return [x for x in out if x]


def _grid_ok(tempo, times) -> str:
    """tempo [(ms, bpm)] sorted, first is beat 0; every later tempo point on a measure line, every time on the <=96 grid"""
    from fractions import Fraction

    if not tempo:
        return "no tempo point"
    for (t0, b0), (t1, b1) in zip(tempo, tempo[1:]):
        beats = Fraction(t1 - t0) * Fraction(b0) / 60000
        if beats <= 0 or (beats / 4).denominator != 1:
            return "tempo change off a measure line"
    for t in times:
        act = tempo[0]
        for p in tempo:
            if p[0] <= t:
                act = p
        if t < tempo[0][0]:
            return "object before the first tempo point"
        rel = Fraction(t - act[0]) * Fraction(act[1]) / 60000
        if (rel - (rel.numerator // rel.denominator)).denominator > 96:
            return "object off the snap grid"
    return ""


def _osu_pipeline_valid(self, doc, c) -> str:
    keys = doc["keys"]
    if keys not in c.get("keys", [keys]):
        return "key count"
    cols = {ref_osu.x_to_column(o["x"], keys) for o in doc["objs"]}
    if c.get("grid"):
        if keys - 1 not in cols:
            return "last column unused"
        tempo = sorted((tp["offset"], 60000.0 / float(tp["code"])) for tp in doc["tps"] if tp["kind"] == "bpm")
        if c.get("t0_zero") and tempo and tempo[0][0] != 0:
            return "first tempo point not at 0"
        times = [o["offset"] for o in doc["objs"]] + [o["end"] for o in doc["objs"] if o.get("end") is not None]
        return _grid_ok(tempo, times)
    return ""


OsuIO.valid_pipeline_doc = _osu_pipeline_valid
