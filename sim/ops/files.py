"""File operations over SimFS (C01-C07, C09, C13 file clause). Filled in below."""
from __future__ import annotations
