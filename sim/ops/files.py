"""File operations over SimFS (C01-C07, C09, C13 file clause, C15 writers).

  fs.install   generator content (a format doc rendered by the reference printer) -> SimFS
  io.read      X.read_file(path)          oracle: reference parse of the stored bytes
  io.write     x.write_file(path)         oracle: reference parse of the written bytes

Acknowledgement = normal return: whenever read_file / write_file returns normally
the full oracle applies, whatever the device did meanwhile; an injected error
fault only adds "the call may raise" (DESIGN §4.6)."""
from __future__ import annotations

import pathlib

from .. import fields
from ..engine import OpSpec, Outcome, lib_call, HarnessError
from ..simfs import SimFS, Patched, IoCtx
from ..snap import alpha_map, alpha_mapset, snapshot, digest
from . import register
from .lists import unexpected

STALE_LONG = (b"// stale content of an older, longer file\r\n" + b"#99999:ZZZZ;\n0,0,0,0,0,0,0,0\n" * 40) * 60
STALE_SHORT = b"stale\n"


class GameIO:
    """Per-format plumbing: how to call the library and how to judge the result."""

    name = "?"
    kind = "map"
    prop_read = None
    prop_write = None
    ext = ".txt"

    def ref(self):
        raise NotImplementedError

    def render(self, doc, fmt) -> bytes:
        return self.ref().render(doc, fmt)

    def parse(self, data: bytes, layout=None) -> dict:
        return self.ref().parse(data)

    def read(self, path, layout=None):
        raise NotImplementedError

    def write(self, obj, path, layout=None):
        raise NotImplementedError

    def read_api(self, data: bytes, layout=None, raw_newlines=False):
        """the in-memory entry point (X.read(lines | text | bytes)): the user program read the file itself"""
        raise NotImplementedError

    def write_api(self, obj, layout=None) -> bytes:
        """the in-memory exit point (x.write()): the user program stores the result itself"""
        raise NotImplementedError

    def alpha(self, obj):
        return alpha_map(obj) if self.kind == "map" else alpha_mapset(obj)

    def cmp_read(self, den, a, layout=None) -> list[str]:
        raise NotImplementedError

    def cmp_write(self, a, den, layout=None) -> list[str]:
        raise NotImplementedError

    def cmp_gen(self, den_k, den_1) -> list[str]:
        raise NotImplementedError

    structural_only = False  # set while a C14 write is gated: semantic preconditions are not reasons then

    def writable(self, a, layout=None) -> str:
        """'' if the in-memory object lies in the writer property's quantifier domain."""
        return ""

    def valid_doc(self, doc) -> str:
        """'' if a generated document lies in the reader property's dialect (guards the shrinker)."""
        return ""

    def tag_write_failure(self, a, layout=None) -> str:
        """a tag for the message of a failed write oracle when the object at hand has the feature of a listed finding"""
        return ""

    def valid_pipeline_doc(self, doc, c) -> str:
        """'' if a C09 source document still satisfies the constraints its generator enforced
        (key count the target supports, tempo changes on measure lines, grid positions): guards the shrinker."""
        return ""


IO: dict[str, GameIO] = {}


def game_io(cls):
    IO[cls.name] = cls()
    return cls


def get_fs(sess) -> SimFS:
    w = sess.world
    if w.fs is None:
        w.fs = SimFS(sess.knobs)
        w.fs.lineage = {}  # path -> denotation of the first written generation
        w.fs.installed = set()
    return w.fs


def _path_arg(path: str, path_type: str):
    return pathlib.Path(path) if path_type == "path" else path


def run_io(sess, fs: SimFS, plan: dict | None, fn, dry=None):
    """Run fn() (a library file call) on the simulated device under `plan`.
    If the plan carries an error fault placed by fraction (`at`), a dry run of the
    same call without the fault learns the number of raw calls first.
    Returns (CallResult, IoCtx)."""
    plan = dict(plan or {})
    fault = plan.get("fault")
    if fault and "raw_call" not in fault:
        if fault["kind"] in ("close_error", "open_error"):
            fault = dict(fault, raw_call=-1)
        else:
            saved = dict(fs.files), set(fs.tainted)
            stats_saved = dict(fs.stats)
            ctx0 = fs.begin_op(dict(plan, fault=None))
            with Patched(fs):
                lib_call(dry or fn)
            n = ctx0.raw_calls_kind(fault["kind"])
            fs.files, fs.tainted = dict(saved[0]), set(saved[1])
            fs.stats.clear()
            fs.stats.update(stats_saved)
            k = min(int(float(fault.get("at", 0.0)) * n), max(n - 1, 0)) if n else 0
            fault = dict(fault, raw_call=k, n_raw=n)
        plan["fault"] = fault
    ctx = fs.begin_op(plan)
    with Patched(fs):
        res = lib_call(fn)
    fs.ctx = IoCtx(None, fs.stats)
    sess.raw_calls += ctx.raw_calls
    for k in ctx.fired:
        sess.fault_fired[k] = sess.fault_fired.get(k, 0) + 1
    return res, ctx


def tie_order(got_rows, want_rows, name, what, lg, lw, rel: float = 0.0) -> str:
    """Entries on one StartTime take effect in listing order (the last one stays in force): where the reference side has
    several entries on exactly one whole-millisecond time, the other side lists the same values in the same order.
    Only judged when every time on the reference side is a whole number (writing truncates to milliseconds, which can
    create ties of its own)."""
    def seqs(rows):
        d = {}
        for r in rows:
            t, v = r.get("offset"), r.get(name)
            if not (isinstance(t, (int, float)) and not isinstance(t, bool) and t == t) or not (isinstance(v, (int, float)) and not isinstance(v, bool) and v == v):
                return None
            d.setdefault(float(t), []).append(float(v))
        return d

    w, g = seqs(want_rows), seqs(got_rows)
    if w is None or g is None:
        return ""
    import math

    for t, vs in w.items():
        if not float(t).is_integer() or any(u != t and math.trunc(u) == t for u in w):
            continue  # a fractional time, or another time that truncates onto this millisecond: not a tie of the chart's own
        def same(a, b):
            return len(a) == len(b) and all(x == y or abs(x - y) <= rel * max(abs(x), abs(y)) for x, y in zip(a, b))

        if len(vs) > 1 and not same(sorted(vs)[:1] * len(vs), sorted(vs)) and g.get(t) is not None and same(sorted(g[t]), sorted(vs)) and not same(g[t], vs):
            return f"{what}: on StartTime {t:g} {lw} {vs[:6]} (in force afterwards: {vs[-1]}), {lg} {g[t][:6]} (in force afterwards: {g[t][-1]})"
    return ""



def _frames_of(kind, obj) -> set:
    """identities of the DataFrames behind an object (used only for a yes/no sharing test, never traced)"""
    try:
        if kind == "list":
            return {id(obj.df)}
        if kind == "map":
            return {id(tl.df) for tl in obj.objs.values()}
        if kind == "mapset":
            return {id(tl.df) for m in obj.maps for tl in m.objs.values()}
    except Exception:
        pass
    return set()


def _is_oserror(exc) -> bool:
    e = exc
    seen = 0
    while e is not None and seen < 10:
        if isinstance(e, OSError):
            return True
        e = e.__cause__ or e.__context__
        seen += 1
    return False


# ---------------------------------------------------------------- ops

@register
class FsInstall(OpSpec):
    """The environment holds a file: the reference printer renders a generated doc."""

    name = "fs.install"
    operand_keys = ()
    output_keys = ()

    def run(self, sess, op):
        out = Outcome(own_kind=False)
        fs = get_fs(sess)
        g = IO[op["game"]]
        if "bytes" in op:
            data = op["bytes"]
        else:
            why = g.valid_doc(op["doc"]) or (g.valid_pipeline_doc(op["doc"], op["constraint"]) if op.get("constraint") else "")
            if why:
                raise HarnessError(f"generated {op['game']} document outside the dialect: {why}")
            data = g.render(op["doc"], op.get("fmt") or {})
        fs.files[op["path"]] = data
        fs.tainted.discard(op["path"])
        fs.lineage.pop(op["path"], None)
        fs.installed.add(op["path"])
        out.note = ("install", op["game"], op["path"], len(data), digest(data))
        return out


@register
class IoRead(OpSpec):
    name = "io.read"
    operand_keys = ()

    def run(self, sess, op):
        out = Outcome()
        fs = get_fs(sess)
        g = IO[op["game"]]
        path = op["path"]
        if path not in fs.files or path in fs.tainted:
            out.skipped = True
            return out
        prop = op.get("prop") or g.prop_read
        data = fs.files[path]
        layout = op.get("layout")
        parg = _path_arg(path, op.get("path_type", "str"))
        if op.get("via") == "api":
            res, ctx = run_io(sess, fs, None, lambda: g.read_api(data, layout, bool(op.get("raw_newlines"))))
            out.probes.append("read_via_api" + ("_raw_newlines" if op.get("raw_newlines") and b"\r\n" in data else ""))
        else:
            res, ctx = run_io(sess, fs, op.get("io"), lambda: g.read(parg, layout))
        fired = list(ctx.fired)
        out.note = ("io.read", op["game"], path, tuple(ctx.sizes[:400]), tuple(fired), res.ok, res.exc_name)
        self._probes(out, ctx, data, fs)
        inv = "I3.io.read." + op["game"]
        sess.last_io = dict(id=op.get("id"), op=op, failed_by_fault=(not res.ok) and bool(fired))
        if op.get("retry_of"):
            out.probes.append("recover_retry_read")
        if fs.files.get(path) != data:
            out.fail(prop, inv, f"read_file changed the file: {len(data)} -> {len(fs.files.get(path, b''))} bytes")
            fs.files[path] = data
        if not res.ok:
            sess.io_failed += 1
            if any(k in ("eio_read", "open_error") for k in fired) and res.exc_name != "OpTimeout":
                if not _is_oserror(res.exc):
                    out.probes.append("read_error_surfaced_as_" + res.exc_name)
                out.probes.append("read_fault_raised")
                return out
            # judge only texts the reference accepts (generator bugs are harness errors elsewhere)
            try:
                g.parse(data, layout)
            except Exception as e:  # noqa
                raise HarnessError(f"installed {op['game']} file is rejected by the reference parser: {e}")
            unexpected(out, prop, inv, f"{op['game']} read_file", res)
            return out
        sess.io_ok += 1
        try:
            den = g.parse(data, layout)
        except Exception as e:  # RefError: the stored text is not in the dialect
            from ..ref.common import RefError

            if isinstance(e, RefError):
                out.note = out.note + ("unparseable",)
                out.own_kind = False
                return out
            raise
        a = g.alpha(res.value)
        for m in g.cmp_read(den, a, layout)[:3]:
            out.fail(prop, inv, m)
        # every read yields a chart of its own: it may not be (or share frames with) an object the caller already holds
        mine = _frames_of(g.kind, res.value)
        for hn, hd in sess.world.h.items():
            if hd.kind in ("map", "mapset", "list") and (hd.obj is res.value or (mine & _frames_of(hd.kind, hd.obj))):
                out.fail(prop, "I3.io.read.fresh", f"read_file returned an object that shares state with {hn} ({type(hd.obj).__name__}), "
                                                   f"which the caller already holds: a later edit of either changes the other")
                break
        if fired:
            out.probes.append("read_returned_despite_fault")
        # the generation chain continues only if this read used the layout the first generation was written and parsed with
        root_layout = getattr(fs, "lineage_layout", {}).get(path)
        meta = dict(keys=den.get("keys", 4), read_from=path, read_layout=layout, lineage_layout=layout if layout == root_layout else ("<broken>", layout, root_layout))
        root = fs.lineage.get(path)
        meta["lineage"] = root
        meta["lineage_game"] = op["game"]
        meta["src_den"] = den
        meta["src_game"] = op["game"]
        meta["lineage_snap"] = digest(snapshot(g.kind, res.value))
        out.new.append((op["out"], g.kind, res.value, None, op["game"], meta))
        return out

    @staticmethod
    def _probes(out, ctx, data, fs):
        if ctx.short_calls:
            out.probes.append("io_short_counts")
        if b"\r\n" in data:
            out.probes.append("read_crlf_file")
        if ctx.bufsize < 16:
            out.probes.append("io_tiny_buffer")
            if any(b >= 0x80 for b in data):
                out.probes.append("multibyte_split_across_raw_reads")
            if b"\r\n" in data:
                out.probes.append("crlf_split_across_raw_reads")


@register
class IoWrite(OpSpec):
    name = "io.write"

    def run(self, sess, op):
        out = Outcome()
        fs = get_fs(sess)
        g = IO[op["game"]]
        h = sess.world.get(op["h"])
        if h.game != op["game"] or h.kind != g.kind:
            out.skipped = True
            return out
        path = op["path"]
        layout = op.get("layout")
        prop = op.get("prop") or g.prop_write
        a = g.alpha(h.obj)
        c09 = prop in ("C09", "C14")  # C09 has its own (generator-enforced) domain and oracle; C14 judges the frame only
        frame_only = prop == "C14"
        why = "" if c09 else g.writable(a, layout)
        if frame_only:
            # inputs-unchanged is judged also for charts a writer cannot represent faithfully, as long as writing them is
            # cheap: structural preconditions (grid, measure lines, columns) still apply, purely semantic ones do not
            g.structural_only = True
            try:
                structural = g.writable(a, layout)
            finally:
                g.structural_only = False
            why = structural or g.writable(a, layout)
            if not structural and why and any(why.startswith(x) for x in ("LNOBJ id", "sample table", "header", "sample not bytes", "tempo value with more")):
                out.probes.append("write_outside_writer_domain:" + why.split(" ")[0])
                why = ""
        count_only = False
        if why == "a long note contains another object of its lane" and not frame_only and not c09:
            # C05 "no two objects are merged or dropped" still applies: every hit is one object of the file, every hold two
            count_only, why = True, ""
            out.probes.append("write_overlapping_long_note_count_only")
        if why:
            out.skipped = True
            out.note = ("io.write", "out-of-domain", why)
            return out
        dest = op.get("dest")
        if dest == "empty":
            fs.files[path] = b""
        elif dest == "longer":
            fs.files[path] = STALE_LONG
            out.probes.append("write_over_longer_file")
        elif dest == "shorter":
            fs.files[path] = STALE_SHORT
        elif dest == "absent":
            fs.files.pop(path, None)
        parg = _path_arg(path, op.get("path_type", "str"))
        before_bytes = fs.files.get(path)
        scratch = path + ".dry"
        if op.get("via") == "api":
            holder = {}

            def via_api():
                holder["raw"] = g.write_api(h.obj, layout)  # the library call; what it returns is judged below

            res, ctx = run_io(sess, fs, None, via_api)
            out.probes.append("write_via_api")
            if res.ok:
                data_api, err = g.api_bytes(holder.get("raw"))
                if err:
                    out.fail(prop, "I3.io.write." + op["game"], err)
                    out.note = ("io.write", op["game"], path, "api-type", err[:80])
                    return out
                fs.files[path] = data_api  # the user program stores the result itself
        else:
            res, ctx = run_io(sess, fs, op.get("io"), lambda: g.write(h.obj, parg, layout),
                              dry=lambda: g.write(h.obj, _path_arg(scratch, op.get("path_type", "str")), layout))
        fs.files.pop(scratch, None)
        fired = list(ctx.fired)
        out.note = ("io.write", op["game"], path, tuple(ctx.sizes[:400]), tuple(fired), res.ok, res.exc_name,
                    digest(fs.files.get(path, b"")))
        if ctx.short_calls:
            out.probes.append("io_short_counts")
        if ctx.bufsize < 16:
            out.probes.append("io_tiny_buffer")
        inv = "I3.io.write." + op["game"]
        sess.last_io = dict(id=op.get("id"), op=op, failed_by_fault=(not res.ok) and bool(fired))
        if op.get("retry_of"):
            out.probes.append("recover_retry_write")
        if not res.ok:
            sess.io_failed += 1
            fs.tainted.add(path)
            fs.lineage.pop(path, None)
            if any(k in ("eio_write", "enospc", "close_error", "open_error") for k in fired) and res.exc_name != "OpTimeout":
                out.probes.append("write_fault_raised")
                if "open_error" in fired and fs.files.get(path) != before_bytes:
                    out.fail(prop, inv, "write_file could not open its destination (EACCES) and yet the destination changed: "
                                        f"{None if before_bytes is None else len(before_bytes)} -> "
                                        f"{None if fs.files.get(path) is None else len(fs.files[path])} bytes")
                return out
            if frame_only:
                out.probes.append("write_raised_outside_writer_domain")
                return out  # the chart may be outside the writer's domain; only "inputs unchanged" (I1) is judged
            unexpected(out, prop, inv, f"{op['game']} write_file", res)
            return out
        sess.io_ok += 1
        fs.tainted.discard(path)
        data = fs.files.get(path)
        if data is None:
            out.fail(prop, inv, "write_file returned but no file exists at the path")
            return out
        if fired:
            out.probes.append("write_returned_despite_fault")
        if frame_only:
            return out
        try:
            den = g.parse(data, layout)
        except Exception as e:  # noqa
            from ..ref.common import RefError

            if not isinstance(e, RefError):
                raise
            out.fail(prop, inv, g.tag_write_failure(a, layout) + f"the written {op['game']} file is not well-formed: {e}")
            fs.lineage.pop(path, None)
            return out
        if count_only:
            n_file = len(den["hits"]) + 2 * len(den["holds"])
            n_chart = len(a["lists"]["hits"]["rows"]) + 2 * len(a["lists"]["holds"]["rows"])
            if n_file != n_chart:
                out.fail(prop, inv, f"objects are not conserved: the written file holds {n_file} note objects, the chart has {n_chart} "
                                    f"({len(a['lists']['hits']['rows'])} hits, {len(a['lists']['holds']['rows'])} long notes of two objects each)")
            fs.lineage.pop(path, None)
            return out
        if not c09:
            for m in g.cmp_write(a, den, layout)[:3]:
                out.fail(prop, inv, m)
        # ---- H-gen: later generations denote what the first written generation denotes
        root = h.meta.get("lineage")
        same = h.meta.get("lineage_snap") == digest(snapshot(g.kind, h.obj)) and h.meta.get("lineage_game") == op["game"]
        if root is not None and same and h.meta.get("lineage_layout") == layout:
            for m in g.cmp_gen(den, root)[:3]:
                out.fail(prop, "I3.io.gen." + op["game"], "write/read generations drift: " + m)
            out.probes.append("generation_chain_step")
            fs.lineage[path] = root
        else:
            fs.lineage[path] = den
        if not hasattr(fs, "lineage_layout"):
            fs.lineage_layout = {}
        fs.lineage_layout[path] = layout
        # ---- C09: read -> convert -> write
        pl = h.meta.get("pipeline")
        # (a pipeline write op of a C09 session is judged even if an earlier WRITE changed the chart: those sessions contain
        # no user edit of a converted chart, so the only thing that can have changed it is the library's own writer)
        if pl is not None and (op.get("prop") == "C09" or pl.get("snap") == digest(snapshot(g.kind, h.obj))):
            from .pipeline import cmp_pipeline

            for m in cmp_pipeline(pl, op["game"], den, layout)[:3]:
                out.fail("C09", "I3.pipeline." + pl["conv"], m)
            out.probes.append("pipeline_" + pl["conv"])
        if b"\r\n" in data:
            out.probes.append("written_file_has_crlf")
        return out


@register
class IoRetry(OpSpec):
    """H-recover: after a failed file op the same call with faults off must succeed
    (executed as an ordinary io.read / io.write by the generator); this op only
    marks the retry in the trace."""

    name = "io.note"
    operand_keys = ()
    output_keys = ()

    def run(self, sess, op):
        out = Outcome(own_kind=False)
        out.note = ("note", op.get("what"))
        return out


def twin_write(sess, game, A, B, op):
    """C15 twins through a writer: both row orders must give files with the same denotation."""
    g = IO.get(game)
    if g is None:
        return None, None, None
    fs = get_fs(sess)
    layout = op.get("args", {}).get("layout")
    for X in (A, B):
        if g.writable(g.alpha(X), layout):
            return None, None, None

    def wr(obj, path):
        def f():
            g.write(obj, path, layout)
            return fs.files.get(path)

        return f

    ra, _ = run_io(sess, fs, None, wr(A, "/simfs/twinA" + g.ext))
    rb, _ = run_io(sess, fs, None, wr(B, "/simfs/twinB" + g.ext))

    def den(x, y):
        from ..ref.common import RefError

        try:
            dx, dy = g.parse(x, layout), g.parse(y, layout)
        except RefError as e:
            return f"written file is not well-formed: {e}"
        ms = g.cmp_gen(dx, dy)
        return ms[0] if ms else ""

    return ra, rb, den


from . import files_osu  # noqa: E402,F401
from . import files_qua  # noqa: E402,F401
from . import files_sm  # noqa: E402,F401
from . import files_bms  # noqa: E402,F401
from . import files_ojn  # noqa: E402,F401
