"""File operations over SimFS (C01-C07, C09, C13 file clause). Filled in below."""
from __future__ import annotations


def twin_write(sess, game, A, B, op):
    """Filled in with the file ops: returns (None, None, None) until the writers' oracles exist."""
    return None, None, None
