"""World management ops."""
from __future__ import annotations

from ..engine import OpSpec, Outcome
from . import register


@register
class Drop(OpSpec):
    """The user program lets go of some handles (keeps the pool small)."""

    name = "drop"
    operand_keys = ()

    def run(self, sess, op):
        out = Outcome(own_kind=False)
        out.drop = [n for n in op["hs"] if n in sess.world.h]
        # a stacker whose owner vanished can no longer be judged
        for n, h in list(sess.world.h.items()):
            if h.kind == "stacker" and h.meta.get("of") in out.drop and n not in out.drop:
                out.drop.append(n)
        out.note = ("drop", len(out.drop))
        return out
