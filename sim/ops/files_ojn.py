"""O2Jam read (C07): library plumbing and oracle."""
from __future__ import annotations

import math
import struct

from ..ref import ojn as ref_ojn
from ..ref.common import first_mismatch, ftol, near
from ..values import NAN, eqv
from .files import GameIO, game_io


def _num_ok(v) -> bool:
    return isinstance(v, (int, float)) and not isinstance(v, bool) and v == v and not math.isinf(v)


def _rows(ma, key):
    return ma["lists"][key]["rows"]


@game_io
class OJNIO(GameIO):
    name = "o2j"
    kind = "mapset"
    prop_read = "C07"
    prop_write = None
    ext = ".ojn"

    def ref(self):
        return ref_ojn

    def read(self, path, layout=None):
        from reamber.o2jam.O2JMapSet import O2JMapSet

        return O2JMapSet.read_file(path)

    def read_api(self, data, layout=None, raw_newlines=False):
        from reamber.o2jam.O2JMapSet import O2JMapSet

        return O2JMapSet.read(bytes(data))

    def cmp_read(self, den, a, layout=None) -> list[str]:
        out = []
        if den["has_fraction"]:
            return out
        maps = a["maps"]
        if len(maps) != 3:
            return [f"{len(maps)} difficulties read, an .ojn file has three"]
        for i, (ma, lv) in enumerate(zip(maps, den["levels"])):
            w = f"level {i}: "
            out.append(first_mismatch(
                w + "notes", _rows(ma, "hits"), lv["hits"],
                lambda x, y: eqv(x.get("column", NAN), y["column"]) and _num_ok(x.get("offset")) and near(x["offset"], y["offset"], ftol(y["offset"]))
                and eqv(x.get("volume", NAN), y["volume"]) and eqv(x.get("pan", NAN), y["pan"]), "read", "in the file"))
            out.append(first_mismatch(
                w + "long notes", _rows(ma, "holds"), lv["holds"],
                lambda x, y: eqv(x.get("column", NAN), y["column"]) and _num_ok(x.get("offset")) and _num_ok(x.get("length"))
                and near(x["offset"], y["offset"], ftol(y["offset"])) and near(x["offset"] + x["length"], y["end"], 2 * ftol(y["end"]))
                and eqv(x.get("volume", NAN), y["volume"]) and eqv(x.get("pan", NAN), y["pan"]), "read", "in the file"))
            rows = _rows(ma, "bpms")
            for b in lv["bpms"]:
                if not any(_num_ok(x.get("offset")) and _num_ok(x.get("bpm")) and near(x["offset"], b["offset"], ftol(b["offset"]))
                           and near(x["bpm"], b["bpm"], 1e-9 * (1 + abs(float(b["bpm"])))) for x in rows):
                    out.append(f"{w}tempo change at measure {float(b['pos'])} ({float(b['offset'])} ms, {float(b['bpm'])} bpm) is not in the tempo list "
                               f"{[(x.get('offset'), x.get('bpm')) for x in rows][:8]}")
                    break
            if not any(b["pos"] == 0 for b in lv["bpms"]) and \
                    not any(_num_ok(x.get("offset")) and x["offset"] == 0 and near(x.get("bpm", 0), den["header"]["bpm"], 1e-9) for x in rows):
                out.append(f"{w}the header tempo {den['header']['bpm']} at 0 ms is not in the tempo list")
        m = a["meta"]
        for f, v in den["header"].items():
            got = m.get(f, NAN)
            if isinstance(v, list):
                ok = isinstance(got, tuple) and len(got) == len(v) and all(eqv(x, y) for x, y in zip(got, v))
            elif isinstance(v, float):
                ok = _num_ok(got) and near(got, v, 1e-9 * (1 + abs(v)))
            else:
                ok = eqv(got, v)
            if not ok:
                out.append(f"header field {f}: read {got!r}, the file says {v!r}")
        return [x for x in out if x]

    def cmp_gen(self, dk, d1):
        return []


def _ojn_pipeline_valid(self, doc, c) -> str:
    for lv in doc["levels"]:
        if not any(p[1] == 8 and any(p[2]) for p in lv):
            return "last column unused"
        for m, ch, ev in lv:
            if ch == 1 and any(ev[1:]):
                return "tempo event off a measure line"
    return ""


OJNIO.valid_pipeline_doc = _ojn_pipeline_valid
