"""C15: a chart is a set of timed objects - results do not depend on row order.

One op = build the same chart twice (canonical row order / a scheduler-chosen
delivery order through one of the construction histories the quantifier names),
apply one operation f to both twins, compare the DENOTATIONS of the results.
No reference implementation of f is used (confluence check)."""
from __future__ import annotations

import math

from .. import fields
from ..engine import OpSpec, Outcome, lib_call, HarnessError
from ..snap import alpha_list, alpha_map, alpha_mapset
from ..values import NAN, close, eqv, norm
from . import register
from .lists import make_item, multiset_eq, unexpected
from .maps import build_list, set_meta, converter, CONVERTERS


def deliver(cls: str, rows: list[dict], plan: dict):
    """Build a list holding `rows` (as a multiset) through a construction history."""
    L = fields.list_class(cls)
    how = plan.get("how", "canonical")
    if how == "canonical" or not rows:
        return build_list(cls, rows)
    perm = plan["perm"]
    prow = [rows[i] for i in perm]
    if how == "unsorted":
        return build_list(cls, prow)
    if how == "append":
        tl = build_list(cls, prow[:1])
        for r in prow[1:]:
            tl = tl.append(make_item(cls, {k: (list(v) if isinstance(v, tuple) else v) for k, v in r.items()}))
        return tl
    if how == "reverse_sort":
        return build_list(cls, rows).sorted(reverse=True)
    if how == "sort_then_reverse":
        # unsorted construction, an ascending sort, then the reverse sort
        return build_list(cls, prow).sorted().sorted(reverse=True)
    if how == "concat_sorted_parts":
        # concatenation of parts each of which was sorted on its own (the whole is not in time order)
        cuts = sorted(set(c for c in plan.get("cuts", []) if 0 < c < len(prow)))
        parts, last = [], 0
        for c in cuts + [len(prow)]:
            parts.append(prow[last:c])
            last = c
        tl = build_list(cls, parts[-1]).sorted()
        for p in parts[:-1]:
            tl = tl.append(build_list(cls, p).sorted())
        return tl
    if how == "concat":
        cuts = sorted(set(c for c in plan.get("cuts", []) if 0 < c < len(prow)))
        parts, last = [], 0
        for c in cuts + [len(prow)]:
            parts.append(prow[last:c])
            last = c
        tl = build_list(cls, parts[0])
        for p in parts[1:]:
            tl = tl.append(build_list(cls, p))
        return tl
    raise HarnessError(how)


def build_chart(game: str, lists: dict, meta: dict, plans: dict | None):
    M = fields.map_class(game)
    slots = fields.GAMES[game]
    m = M()
    for key, rows in lists.items():
        setattr(m, key, deliver(slots[key], rows, (plans or {}).get(key, {}) if plans is not None else {}))
    set_meta(m, meta)
    return m


def build_subject(op, permuted: bool):
    game = op["game"]
    charts = op["charts"]
    ms = [build_chart(game, c["lists"], c.get("meta", {}), c.get("plans") if permuted else None) for c in charts]
    if op.get("set_meta") is not None or game in ("sm", "o2j"):
        S = fields.mapset_class(game)
        s = S(maps=ms)
        set_meta(s, op.get("set_meta") or {})
        return s
    return ms[0]


# ---------------------------------------------------------------- denotations

def _rows_ms(rows, cols=None):
    out = []
    for r in rows:
        ks = cols or sorted(r)
        out.append(tuple((k, r.get(k, NAN)) for k in ks))
    return out


def _scalars_close(a, b, what) -> str:
    """scalar (non-list) fields of two charts / sets agree (numbers to 1e-9 relative)"""
    from ..snap import alpha_meta

    ma, mb = alpha_meta(a), alpha_meta(b)
    for k in sorted(set(ma) | set(mb)):
        va, vb = ma.get(k), mb.get(k)
        if isinstance(va, dict) or isinstance(vb, dict):
            continue  # list-valued fields (osu sample events) are compared as multisets elsewhere
        num = all(isinstance(v, (int, float)) and not isinstance(v, bool) for v in (va, vb))
        if not (close(va, vb) if num else eqv(va, vb)):
            return f"{what}field {k}: {va!r} vs {vb!r}"
    return ""


def _ms_close(a, b, what, rel=1e-9) -> str:
    """Multiset equality of tuples of (key, value) with float closeness."""
    if len(a) != len(b):
        return f"{what}: {len(a)} vs {len(b)} elements"

    def key(t):
        return tuple((k, (round(v, 6) if isinstance(v, float) else repr(v))) for k, v in t)

    sa, sb = sorted(a, key=lambda t: repr(key(t))), sorted(b, key=lambda t: repr(key(t)))
    for x, y in zip(sa, sb):
        for (k1, v1), (k2, v2) in zip(x, y):
            if k1 != k2 or not close(v1, v2, rel=rel, abs_=1e-9):
                return f"{what}: {dict(x)} vs {dict(y)}"
    return ""


def map_den(ma: dict) -> dict:
    return {k: _rows_ms(la["rows"]) for k, la in ma["lists"].items()}


def cmp_map_den(a: dict, b: dict, what="") -> str:
    for k in a:
        m = _ms_close(a[k], b.get(k, []), f"{what}list {k}")
        if m:
            return m
    return ""


def _hs_den(ma: dict) -> dict:
    """hitsound_copy denotation: notes as a multiset; sounds per time as multisets."""
    notes, per_time, files, banks = [], {}, {}, []
    for key in ("hits", "holds"):
        for r in ma["lists"][key]["rows"]:
            notes.append((("offset", r["offset"]), ("column", r["column"]), ("length", r.get("length", NAN)), ("kind", key)))
            t = r["offset"]
            # the sample banks and volumes the notes of one time carry, as a multiset (which note of a chord carries which
            # sound is the library's business; what sounds at that time is not)
            hs_ = int(r["hitsound_set"]) if r["hitsound_set"] is not NAN else 0
            if hs_ & 14 or r.get("hitsound_file"):
                # only notes that carry a copied sound: which note of a chord receives it is the library's business, and the
                # notes that receive none keep whatever bank and volume they had
                banks.append((("t", t), ("bank", (r.get("sample_set", NAN), r.get("addition_set", NAN), r.get("custom_set", NAN))), ("volume", r.get("volume", NAN))))
            hs = int(r["hitsound_set"]) if r["hitsound_set"] is not NAN else 0
            c = per_time.setdefault(t, [0, 0, 0])
            c[0] += 1 if hs & 2 else 0
            c[1] += 1 if hs & 4 else 0
            c[2] += 1 if hs & 8 else 0
            if r["hitsound_file"]:
                files.setdefault(t, []).append(r["hitsound_file"])
    samples = [(("offset", r["offset"]), ("file", r["sample_file"])) for r in ma["meta"]["samples"]["rows"]]
    sounds = [(("t", t), ("clap", c[0]), ("finish", c[1]), ("whistle", c[2])) for t, c in per_time.items()]
    named = [(("t", t), ("file", f)) for t, fs in files.items() for f in fs] + [(("t", dict(s)["offset"]), ("file", dict(s)["file"])) for s in samples]
    return dict(notes=notes, sounds=sounds, named=named, banks=banks)


def _series_den(s):
    out = []
    for k, v in zip(s.index.tolist(), s.tolist()):
        out.append((("offset", norm(k)), ("speed", norm(v))))
    return out


# ---------------------------------------------------------------- the op

@register
class TwinCompare(OpSpec):
    name = "twin.compare"
    operand_keys = ()
    output_keys = ()

    def run(self, sess, op):
        out = Outcome()
        f = op["f"]
        ra = lib_call(lambda: build_subject(op, False))
        rb = lib_call(lambda: build_subject(op, True))
        if not (ra.ok and rb.ok):
            # construction through documented list operations failed: C16's business
            out.fail("C16", "I3.twin.build", f"building twin charts raised {ra.exc_name or rb.exc_name}: {ra.exc or rb.exc}")
            return out
        A, B = ra.value, rb.value
        # sanity of the harness: the twins hold the same multiset of rows
        ma = [alpha_map(m) for m in (A.maps if hasattr(A, "maps") else [A])]
        mb = [alpha_map(m) for m in (B.maps if hasattr(B, "maps") else [B])]
        for x, y in zip(ma, mb):
            m = cmp_map_den(map_den(x), map_den(y))
            if m:
                raise HarnessError("twins differ before f: " + m)
        if all(la["rows"] == mb[i]["lists"][k]["rows"] for i, x in enumerate(ma) for k, la in x["lists"].items()):
            out.note = ("twin", f, "identical-order")
            out.own_kind = False
        else:
            out.probes.append("twin_rows_reordered")
        for c in op["charts"]:
            for k, p in (c.get("plans") or {}).items():
                out.probes.append("twin_delivery_" + p.get("how", "canonical"))
        def bucket(n):
            return 0 if n == 0 else 1 if n == 1 else 2 if n <= 3 else 3

        out.sig = ("twin", op["game"], f, len(op["charts"]),
                   tuple(sorted((k, p.get("how", "canonical")) for c in op["charts"] for k, p in (c.get("plans") or {}).items())),
                   tuple(sorted((k, bucket(len(v))) for c in op["charts"] for k, v in c["lists"].items())))
        args = op.get("args", {})
        fa, fb, den = self._apply(sess, f, args, A, B, op)
        if fa is None:
            out.skipped = True
            return out
        if not fa.ok or not fb.ok:
            if fa.ok != fb.ok:
                bad = fb if fa.ok else fa
                out.fail("C15", "I3.twin." + f.split(":")[0], f"{f} succeeds on one row order and raises {bad.exc_name} on the other: {str(bad.exc)[:300]} at {bad.where}")
            else:
                # raises on both orders: not an order dependence (foreign: the op's own property)
                out.fail("C00", "I3.twin.raises", f"{f} raised {fa.exc_name} on both twins: {str(fa.exc)[:200]}")
            return out
        try:
            m = den(fa.value, fb.value)
        except HarnessError:
            raise
        if m:
            out.fail("C15", "I3.twin." + f.split(":")[0], f"{f}: results differ between row orders: {m}")
        out.note = ("twin", f, bool(m))
        out.probes.append("twin_f_" + f.split(":")[0])
        return out

    # -- f dispatch: returns (result on A, result on B, comparison function)
    def _apply(self, sess, f, args, A, B, op):
        game = op["game"]
        if f == "rate":
            r = args["r"]
            return lib_call(lambda: A.rate(r)), lib_call(lambda: B.rate(r)), self._cmp_subject
        if f.startswith("convert:"):
            cname = f.split(":", 1)[1]
            C = converter(cname)
            fn = C.convert_merge if cname.endswith(".merge") else C.convert
            return lib_call(lambda: fn(A)), lib_call(lambda: fn(B)), self._cmp_converted
        if f == "full_ln":
            from reamber.algorithms.generate import full_ln

            kw = dict(gap=args.get("gap", 150), ln_as_hit_thres=args.get("thres", 100))
            return lib_call(lambda: full_ln(A, **kw)), lib_call(lambda: full_ln(B, **kw)), self._cmp_full_ln
        if f == "hitsound_copy":
            from reamber.algorithms.osu.hitsound_copy import hitsound_copy

            tgt = build_chart("osu", args["tgt"]["lists"], args["tgt"].get("meta", {}), None)
            tgt2 = build_chart("osu", args["tgt"]["lists"], args["tgt"].get("meta", {}), args["tgt"].get("plans"))
            if args.get("permute") == "target":
                return lib_call(lambda: hitsound_copy(A, tgt)), lib_call(lambda: hitsound_copy(A, tgt2)), self._cmp_hs
            return lib_call(lambda: hitsound_copy(A, tgt)), lib_call(lambda: hitsound_copy(B, tgt)), self._cmp_hs
        if f == "dominant_bpm":
            from reamber.algorithms.utils import dominant_bpm

            return lib_call(lambda: dominant_bpm(A)), lib_call(lambda: dominant_bpm(B)), lambda x, y: "" if close(norm(x), norm(y)) else f"{x} vs {y}"
        if f == "scroll_speed":
            from reamber.algorithms.analysis import scroll_speed

            ob = args.get("override")
            return (lib_call(lambda: scroll_speed(A, ob) if ob else scroll_speed(A)),
                    lib_call(lambda: scroll_speed(B, ob) if ob else scroll_speed(B)),
                    lambda x, y: _ms_close(_series_den(x), _series_den(y), "scroll speed"))
        if f == "sv_normalize":
            from reamber.algorithms.generate import sv_normalize

            ob = args.get("override")
            return (lib_call(lambda: sv_normalize(A, ob) if ob else sv_normalize(A)),
                    lib_call(lambda: sv_normalize(B, ob) if ob else sv_normalize(B)),
                    lambda x, y: _ms_close(_rows_ms(alpha_list(x)["rows"], ["offset", "multiplier"]),
                                           _rows_ms(alpha_list(y)["rows"], ["offset", "multiplier"]), "normalising SVs"))
        if f.startswith("write:"):
            from .files import twin_write

            return twin_write(sess, f.split(":", 1)[1], A, B, op)
        raise HarnessError(f)

    @staticmethod
    def _cmp_subject(x, y):
        xs = x.maps if hasattr(x, "maps") else [x]
        ys = y.maps if hasattr(y, "maps") else [y]
        if len(xs) != len(ys):
            return "number of charts differs"
        for i, (a, b) in enumerate(zip(xs, ys)):
            m = cmp_map_den(map_den(alpha_map(a)), map_den(alpha_map(b)), f"chart {i} ") or _scalars_close(a, b, f"chart {i} ")
            if m:
                return m
        if hasattr(x, "maps") and hasattr(y, "maps"):
            return _scalars_close(x, y, "set ")
        return ""

    @staticmethod
    def _cmp_converted(x, y):
        def flat(v):
            if isinstance(v, list):
                return [m for e in v for m in flat(e)]
            return list(v.maps) if hasattr(v, "maps") else [v]

        xs, ys = flat(x), flat(y)
        if len(xs) != len(ys):
            return f"{len(xs)} vs {len(ys)} result charts"
        for i, (a, b) in enumerate(zip(xs, ys)):
            m = cmp_map_den(map_den(alpha_map(a)), map_den(alpha_map(b)), f"chart {i} ") or _scalars_close(a, b, f"chart {i} ")
            if m:
                return m
        # the file-level fields of a converted set (StepMania's #OFFSET, sample window, ...) are part of what it means
        sx = x if isinstance(x, list) else [x]
        sy = y if isinstance(y, list) else [y]
        for i, (a, b) in enumerate(zip(sx, sy)):
            if hasattr(a, "maps") and hasattr(b, "maps"):
                m = _scalars_close(a, b, f"result set {i} ")
                if m:
                    return m
        return ""

    @staticmethod
    def _cmp_full_ln(x, y):
        def den(m):
            a = alpha_map(m)
            return ([(("offset", r["offset"]), ("column", r["column"]), ("length", NAN)) for r in a["lists"]["hits"]["rows"]]
                    + [(("offset", r["offset"]), ("column", r["column"]), ("length", r["length"])) for r in a["lists"]["holds"]["rows"]])

        return _ms_close(den(x), den(y), "full-LN objects")

    @staticmethod
    def _cmp_hs(x, y):
        a, b = _hs_den(alpha_map(x)), _hs_den(alpha_map(y))
        for k in ("notes", "sounds", "named", "banks"):
            m = _ms_close(a[k], b[k], "hitsound copy " + k)
            if m:
                return m
        return ""
