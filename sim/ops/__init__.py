"""Op catalogue (DESIGN Appendix A).  Importing this package registers all op kinds."""
from __future__ import annotations

REGISTRY: dict = {}


def register(cls):
    inst = cls()
    REGISTRY[inst.name] = inst
    return cls


from . import misc  # noqa: E402,F401
from . import lists  # noqa: E402,F401
from . import maps  # noqa: E402,F401
from . import algs  # noqa: E402,F401
from . import files  # noqa: E402,F401
from . import twins  # noqa: E402,F401
