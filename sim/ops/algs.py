"""Algorithm operations.  Executed for the frame conditions (C14) and for the
relational row-order checks (C15); no result oracle is built for the
algorithms themselves (C17-C20 are not claimed, DESIGN §3)."""
from __future__ import annotations

from ..engine import OpSpec, Outcome, lib_call
from ..snap import alpha_map, alpha_list
from ..values import NAN, norm
from . import register
from .lists import unexpected


def _notes(ma):
    return [r for k in ma["lists"] for r in ma["lists"][k]["rows"] if "column" in r]


def alg_precondition(ma: dict, need_bpm_before_first=True) -> bool:
    """Documented preconditions of the analysis routines (C19's quantifier):
    at least one object, at least one tempo point at or before the first object,
    positive bpms, no two tempo points at the same time."""
    notes = _notes(ma)
    bpms = ma["lists"]["bpms"]["rows"]
    if not notes or not bpms:
        return False
    offs = [b["offset"] for b in bpms]
    if len(set(offs)) != len(offs):
        return False
    if any((b["bpm"] is NAN) or b["bpm"] <= 0 for b in bpms):
        return False
    if any(r["offset"] is NAN for r in notes):
        return False
    first = min(r["offset"] for r in notes)
    last = max(r["offset"] + (r.get("length", 0) if r.get("length", 0) is not NAN else 0) for r in notes)
    if need_bpm_before_first and min(offs) > first:
        return False
    if max(offs) >= max(r["offset"] for r in notes):
        # a tempo point at/after the last object has no (or negative) active time
        return False
    return True


@register
class AlgFullLn(OpSpec):
    name = "alg.full_ln"

    def run(self, sess, op):
        out = Outcome()
        h = sess.world.get(op["h"])
        ma = alpha_map(h.obj)
        if not _notes(ma):
            out.skipped = True
            return out
        from reamber.algorithms.generate import full_ln

        res = lib_call(lambda: full_ln(h.obj, gap=op.get("gap", 150), ln_as_hit_thres=op.get("thres", 100)))
        if not res.ok:
            unexpected(out, "C17", "I3.alg.full_ln", "full_ln", res)
            return out
        out.new.append((op["out"], "map", res.value, None, h.game, dict(h.meta, copy_of="full_ln")))
        out.note = ("full_ln", len(res.value.hits), len(res.value.holds))
        return out


@register
class AlgHitsoundCopy(OpSpec):
    name = "alg.hitsound_copy"
    operand_keys = ("src", "tgt")

    def run(self, sess, op):
        out = Outcome()
        s = sess.world.get(op["src"])
        t = sess.world.get(op["tgt"])
        if s.game != "osu" or t.game != "osu" or s.kind != "map" or t.kind != "map":
            out.skipped = True
            return out
        if not _notes(alpha_map(s.obj)) or not _notes(alpha_map(t.obj)):
            out.skipped = True
            return out
        from reamber.algorithms.osu.hitsound_copy import hitsound_copy

        res = lib_call(lambda: hitsound_copy(s.obj, t.obj))
        if not res.ok:
            unexpected(out, "C18", "I3.alg.hitsound_copy", "hitsound_copy", res)
            return out
        out.new.append((op["out"], "map", res.value, None, "osu", dict(t.meta, copy_of="hitsound_copy")))
        out.note = ("hitsound_copy", len(res.value.hits), len(res.value.holds))
        return out


@register
class AlgAnalysis(OpSpec):
    """sv_normalize / scroll_speed / dominant_bpm"""

    name = "alg.analysis"

    def run(self, sess, op):
        out = Outcome()
        h = sess.world.get(op["h"])
        f = op["f"]
        if h.kind != "map" or not alg_precondition(alpha_map(h.obj)):
            out.skipped = True
            return out
        ob = op.get("override")
        if f == "sv_normalize":
            if h.game not in ("osu", "qua"):
                out.skipped = True
                return out
            from reamber.algorithms.generate import sv_normalize

            res = lib_call(lambda: sv_normalize(h.obj, ob) if ob else sv_normalize(h.obj))
            if res.ok and op.get("out"):
                cls = type(res.value).__name__
                out.new.append((op["out"], "list", res.value, None, h.game, dict(cls=cls, copy_of="sv_normalize")))
        elif f == "scroll_speed":
            from reamber.algorithms.analysis import scroll_speed

            res = lib_call(lambda: scroll_speed(h.obj, ob) if ob else scroll_speed(h.obj))
        else:
            from reamber.algorithms.utils import dominant_bpm

            res = lib_call(lambda: dominant_bpm(h.obj))
        if not res.ok:
            unexpected(out, "C19", "I3.alg." + f, f, res)
            return out
        out.note = ("analysis", f)
        return out


@register
class AlgPattern(OpSpec):
    name = "alg.pattern"

    def run(self, sess, op):
        out = Outcome()
        h = sess.world.get(op["h"])
        if h.kind != "map" or not _notes(alpha_map(h.obj)):
            out.skipped = True
            return out
        from reamber.algorithms.pattern import Pattern
        from reamber.algorithms.pattern.combos.PtnCombo import PtnCombo

        def do():
            p = Pattern.from_note_lists([h.obj.hits, h.obj.holds], include_tails=op.get("tails", True))
            g = p.group(v_window=op.get("v", 50.0), h_window=op.get("hw"), avoid_jack=op.get("avoid_jack", True))
            c = PtnCombo(g).combinations(size=op.get("size", 2))
            return len(g), len(c)

        res = lib_call(do)
        if not res.ok:
            unexpected(out, "C20", "I3.alg.pattern", "Pattern/PtnCombo", res)
            return out
        out.note = ("pattern", res.value)
        return out


@register
class MapDescribe(OpSpec):
    name = "map.describe"

    def run(self, sess, op):
        out = Outcome(own_kind=False)
        h = sess.world.get(op["h"])
        if h.kind != "map" or h.game in ("sm", "o2j"):
            out.skipped = True
            return out
        ma = alpha_map(h.obj)
        if not alg_precondition(ma, need_bpm_before_first=False):
            out.skipped = True
            return out
        res = lib_call(lambda: h.obj.describe())
        out.note = ("describe", res.ok)
        return out
