"""StepMania read (C02) and write (C03): library plumbing and oracles."""
from __future__ import annotations

import math
from fractions import Fraction

from ..ref import sm as ref_sm
from ..ref.common import first_mismatch, ftol, near, relclose
from ..values import NAN, eqv
from .files import GameIO, game_io

_FTOL = ftol
KINDS_POINT = ("hits", "mines", "lifts", "fakes", "keysounds")
KINDS_SPAN = ("holds", "rolls")
DIVS = (1, 2, 3, 4, 5, 6, 7, 8, 9, 12, 16, 32, 64, 96)
GRID = sorted({Fraction(n, d) for d in DIVS for n in range(d)})
GRID_F = [float(g) for g in GRID] + [1.0]
STR_META = tuple(ref_sm.HEADER_TAGS.values())
MAX_ROWS = 384


def _num_ok(v) -> bool:
    return isinstance(v, (int, float)) and not isinstance(v, bool) and v == v and not math.isinf(v)


def _rows(ma, key):
    return ma["lists"][key]["rows"]


def on_grid(x: float, eps=1e-6) -> bool:
    f = x - math.floor(x)
    import bisect

    i = bisect.bisect_left(GRID_F, f)
    for j in (i - 1, i):
        if 0 <= j < len(GRID_F) and abs(GRID_F[j] - f) <= eps:
            return True
    return False


def grid_dev(x: float) -> float:
    """distance (beats) of x's fractional part to the nearest snap-grid fraction"""
    import bisect

    f = x - math.floor(x)
    i = bisect.bisect_left(GRID_F, f)
    return min([abs(GRID_F[j] - f) for j in (i - 1, i) if 0 <= j < len(GRID_F)] + [abs(1.0 - f)])


def exact_slack(tl, t: float) -> float:
    """ms by which a writer that puts an object ON its grid point (and tempo changes ON their measure lines) may
    legitimately move an object admitted as "on the grid" within the admission epsilon: the object's own deviation
    from its grid point plus the deviations of the tempo changes before it, at the slowest tempo so far.  Zero for
    charts that sit on the grid exactly; ~1e-4 ms for a chart re-read after the reader reseated its tempo list (float
    bpm values).  Keeps the 'exact' clause honest without demanding more than the quantifier ("positions representable
    on the snap grid") grants."""
    k = active(tl, t)
    slow = max(60000.0 / tl[j][1] for j in range(k + 1))
    b = tl[k][2] + (t - tl[k][0]) * tl[k][1] / 60000.0
    dev = grid_dev(b)
    for j in range(k + 1):
        dev += abs(tl[j][2] / 4 - round(tl[j][2] / 4)) * 4
    return 2 * dev * slow


def snap_frac(x: float) -> Fraction:
    """nearest grid fraction of the fractional part (plus the integer part)"""
    q = math.floor(x)
    f = x - q
    best = min(GRID + [Fraction(1)], key=lambda g: abs(float(g) - f))
    return Fraction(q) + best


def timeline(bpm_rows):
    """sorted [(ms, bpm, beat)] with cumulative beats from the first tempo point"""
    pts = sorted(((float(b["offset"]), float(b["bpm"])) for b in bpm_rows), key=lambda x: x[0])
    out = []
    beat = 0.0
    for i, (t, v) in enumerate(pts):
        if i:
            beat += (t - pts[i - 1][0]) * pts[i - 1][1] / 60000.0
        out.append((t, v, beat))
    return out


def active(tl, t):
    k = 0
    for i, (ms, v, b) in enumerate(tl):
        if ms <= t + 1e-9:
            k = i
    return k


def beat_of(tl, t):
    k = active(tl, t)
    ms, v, b = tl[k]
    return b + (t - ms) * v / 60000.0, k


def all_on_measure_lines(tl) -> bool:
    return all(abs(b / 4 - round(b / 4)) < 1e-7 for _, _, b in tl)


def local_tol(tl, t) -> float:
    """1/96 beat at the local tempo (the slowest of the neighbouring segments: sound near a tempo change)"""
    k = active(tl, t)
    lens = [60000.0 / tl[j][1] for j in range(max(0, k - 1), min(len(tl), k + 2))]
    return max(lens) / 96.0 + ftol(t)


def max_measure_rows(ma) -> int:
    """Largest per-measure least common multiple of the writer's row denominators (beat denominator x 4)
    for the objects of one in-memory chart, positions taken on the snap grid."""
    bp = _rows(ma, "bpms")
    if not bp:
        return 0
    tl = timeline(bp)
    tb = [Fraction(0)]
    for j in range(1, len(tl)):
        tb.append(tb[-1] + snap_frac((tl[j][0] - tl[j - 1][0]) * tl[j - 1][1] / 60000.0))
    per: dict[int, int] = {}
    for k in KINDS_POINT + KINDS_SPAN:
        for r in _rows(ma, k):
            ts = [float(r["offset"])]
            if k in KINDS_SPAN:
                ts.append(float(r["offset"]) + float(r["length"]))
            for t in ts:
                kk = active(tl, t)
                b = tb[kk] + snap_frac((t - tl[kk][0]) * tl[kk][1] / 60000.0)
                m = int(b // 4)
                d = b.denominator * 4
                per[m] = per.get(m, 1) * d // math.gcd(per.get(m, 1), d)
    return max(per.values()) if per else 0


@game_io
class SMIO(GameIO):
    name = "sm"
    kind = "mapset"
    prop_read = "C02"
    prop_write = "C03"
    ext = ".sm"

    def ref(self):
        return ref_sm

    def tag_write_failure(self, a, layout=None) -> str:
        try:
            return "[needs>384rows] " if any(max_measure_rows(ma) > MAX_ROWS for ma in a["maps"]) else ""
        except Exception:  # noqa
            return ""

    def valid_doc(self, doc) -> str:
        for c in doc.get("charts", []):
            for rows in c.get("measures", []):
                if len(rows) % 4 or not rows:
                    return "measure with a row count that is not a multiple of 4"
        if not doc.get("bpms") or min(float(b[0]) for b in doc["bpms"]) != 0:
            return "no tempo entry at beat 0"  # (it need not be listed first)
        return ""

    def read(self, path, layout=None):
        from reamber.sm.SMMapSet import SMMapSet

        return SMMapSet.read_file(path)

    def read_api(self, data, layout=None, raw_newlines=False):
        from reamber.sm.SMMapSet import SMMapSet

        text = data.decode("utf8")
        if not raw_newlines:
            text = text.replace("\r\n", "\n")
        return SMMapSet.read(text if len(data) % 2 else text.split("\n"))

    def write_api(self, obj, layout=None):
        return obj.write()

    def api_bytes(self, raw):
        if not isinstance(raw, str):
            return None, f"write() returned a {type(raw).__name__}, not a text"
        return raw.encode("utf8"), ""

    def write(self, obj, path, layout=None):
        return obj.write_file(path)

    # -------------------------------------------------------------- C02
    def cmp_read(self, den, a, layout=None) -> list[str]:
        out = []
        if den["has_stops"]:
            return out  # outside C02's quantifier
        maps = a["maps"]
        if len(maps) != len(den["charts"]):
            return [f"{len(maps)} charts read, the file has {len(den['charts'])} #NOTES sections"]
        # C02 speaks of tempo-change beats on the 1/48-beat grid.  A file the library wrote itself prints tempo beats
        # with two decimals, so they may be off that grid: then (C03) times agree within 1/96 beat at the local tempo.
        grid_ok = all((b["beat"] * 48).denominator == 1 for b in den["bpms"])
        dtl = timeline([dict(offset=float(b["offset"]), bpm=float(b["bpm"])) for b in den["bpms"]])

        def ftol(t):  # shadows the module-level tolerance inside cmp_read on purpose
            return _FTOL(t) if grid_ok else local_tol(dtl, float(t))

        for i, (ma, dc) in enumerate(zip(maps, den["charts"])):
            w = f"chart {i}: "
            mm = ma["meta"]
            for f in ("chart_type", "description", "difficulty", "difficulty_val"):
                if not eqv(mm.get(f, NAN), dc[f]):
                    out.append(f"{w}header {f}: read {mm.get(f)!r}, the file says {dc[f]!r}")
            if tuple(mm.get("groove_radar") or ()) != tuple(dc["groove_radar"]):
                out.append(f"{w}groove radar: read {mm.get('groove_radar')!r}, the file says {dc['groove_radar']!r}")
            for k in KINDS_POINT:
                out.append(first_mismatch(
                    w + k, _rows(ma, k), dc[k],
                    lambda x, y: eqv(x.get("column", NAN), y["column"]) and _num_ok(x.get("offset")) and near(x["offset"], y["offset"], ftol(y["offset"])),
                    "read", "in the file"))
            for k in KINDS_SPAN:
                out.append(first_mismatch(
                    w + k, _rows(ma, k), dc[k],
                    lambda x, y: eqv(x.get("column", NAN), y["column"]) and _num_ok(x.get("offset")) and _num_ok(x.get("length"))
                    and near(x["offset"], y["offset"], ftol(y["offset"])) and near(x["offset"] + x["length"], y["end"], 2 * ftol(y["end"])),
                    "read", "in the file"))
            # every tempo change of the file is present in the chart's tempo list at that ms position
            rows = _rows(ma, "bpms")
            for b in den["bpms"]:
                if not any(_num_ok(x.get("offset")) and near(x["offset"], b["offset"], ftol(b["offset"])) for x in rows):
                    out.append(f"{w}tempo change at beat {b['beat']} ({float(b['offset'])} ms, {float(b['bpm'])} bpm) is missing from the tempo list "
                               f"{[(x.get('offset'), x.get('bpm')) for x in rows][:8]}")
                    break
        sm = a["meta"]
        for f, v in den["meta"].items():
            got = sm.get(f, NAN)
            if f in ("offset", "sample_start", "sample_length"):
                if not (_num_ok(got) and near(got, v, ftol(v))):
                    out.append(f"file header {f}: read {got!r}, the file says {float(v)!r} ms")
            elif not eqv(got, v):
                out.append(f"file header {f}: read {got!r}, the file says {v!r}")
        return [x for x in out if x]

    # -------------------------------------------------------------- C03 domain
    def writable(self, a, layout=None) -> str:
        maps = a["maps"]
        if not maps:
            return "no charts"
        sm = a["meta"]
        if not _num_ok(sm.get("offset")):
            return "file offset unset"
        first_bpms = None
        for ma in maps:
            mm = ma["meta"]
            keys = ref_sm.CHART_KEYS.get(mm.get("chart_type"))
            if keys is None:
                return "unsupported chart type"
            if _rows(ma, "stops"):
                return "stops"
            bp = _rows(ma, "bpms")
            if not bp:
                return "no tempo point"
            for b in bp:
                # (.sm has no time signature: the in-memory metronome is bookkeeping, any whole number of beats is in the domain)
                if not (_num_ok(b.get("offset")) and _num_ok(b.get("bpm")) and b["bpm"] > 0 and _num_ok(b.get("metronome"))
                        and float(b["metronome"]).is_integer() and 1 <= b["metronome"] <= 16):
                    return "tempo point out of domain"
            key = [(float(b["offset"]), float(b["bpm"])) for b in bp]
            if len({t for t, _ in key}) != len(key):
                # several values on one time: in the domain only when they stand together and in time order in the list (then
                # "the last one listed is in force" needs no tie-breaking rule of its own)
                if [t for t, _ in key] != sorted(t for t, _ in key):
                    return "two tempo points at one time in a list that is not in time order"
            if first_bpms is None:
                first_bpms = key
            elif len(key) != len(first_bpms) or any(abs(x[0] - y[0]) > 1e-9 or abs(x[1] - y[1]) > 1e-9 for x, y in zip(key, first_bpms)):
                return "charts do not share one tempo list"
            tl = timeline(bp)
            if abs(tl[0][0] - float(sm["offset"])) > 1e-9:
                return "#OFFSET differs from the first tempo point"
            exact = all_on_measure_lines(tl)
            # tempo points themselves on the grid (relative to their predecessor)
            for j in range(1, len(tl)):
                d = (tl[j][0] - tl[j - 1][0]) * tl[j - 1][1] / 60000.0
                if not on_grid(d):
                    return "tempo point off the snap grid"
            per_col: dict[int, list[float]] = {}
            for k in KINDS_POINT + KINDS_SPAN:
                for r in _rows(ma, k):
                    if not (_num_ok(r.get("offset")) and _num_ok(r.get("column")) and float(r["column"]).is_integer() and 0 <= r["column"] < keys):
                        return f"{k} row out of domain"
                    ts = [float(r["offset"])]
                    if k in KINDS_SPAN:
                        if not (_num_ok(r.get("length")) and r["length"] > 0):
                            return f"{k} length"
                        ts.append(float(r["offset"]) + float(r["length"]))
                    for t in ts:
                        if t < tl[0][0] - 1e-9:
                            return "object before the first tempo point"
                        kk = active(tl, t)
                        if not on_grid((t - tl[kk][0]) * tl[kk][1] / 60000.0):
                            return "object off the snap grid"
                        per_col.setdefault(int(r["column"]), []).append(beat_of(tl, t)[0])
            for c, bs in per_col.items():
                bs.sort()
                gap = 1e-6 if exact else 2.0 / 96 - 1e-6
                if any(y - x < gap for x, y in zip(bs, bs[1:])):
                    return "objects of one column too close"
            for f in ("chart_type", "description", "difficulty"):
                if not _clean(mm.get(f)):
                    return f"chart header {f}"
        for f in STR_META:
            if not _clean(sm.get(f)):
                return f"header {f} contains separators"
        for f in ("sample_start", "sample_length"):
            if not _num_ok(sm.get(f)):
                return f
        return ""

    # -------------------------------------------------------------- C03
    def cmp_write(self, a, den, layout=None) -> list[str]:
        out = []
        if den["has_stops"]:
            out.append("the written file has #STOPS entries, the mapset has none")
        maps = a["maps"]
        if len(maps) != len(den["charts"]):
            return [f"{len(den['charts'])} charts in the written file, the mapset has {len(maps)}"]
        for i, (ma, dc) in enumerate(zip(maps, den["charts"])):
            w = f"chart {i}: "
            mm = ma["meta"]
            for f in ("chart_type", "description", "difficulty", "difficulty_val"):
                if not eqv(mm.get(f, NAN), dc[f]):
                    out.append(f"{w}header {f}: file says {dc[f]!r}, chart has {mm.get(f)!r}")
            tl = timeline(_rows(ma, "bpms"))
            exact = all_on_measure_lines(tl)

            def tol(t):
                return 4 * ftol(t) + exact_slack(tl, t) if exact else local_tol(tl, t)

            for k in KINDS_POINT:
                out.append(first_mismatch(
                    w + k, dc[k], _rows(ma, k),
                    lambda x, y: eqv(x["column"], y["column"]) and near(x["offset"], y["offset"], tol(y["offset"])),
                    "in the written file", "in the chart"))
            for k in KINDS_SPAN:
                out.append(first_mismatch(
                    w + k, dc[k], _rows(ma, k),
                    lambda x, y: eqv(x["column"], y["column"]) and near(x["offset"], y["offset"], tol(y["offset"]))
                    and near(x["end"], y["offset"] + y["length"], tol(y["offset"] + y["length"])),
                    "in the written file", "in the chart"))
            if i == 0:
                out.append(first_mismatch(
                    "tempo changes", den["bpms"], _rows(ma, "bpms"),
                    lambda x, y: relclose(x["bpm"], y["bpm"], 1e-9) and near(x["offset"], y["offset"], tol(y["offset"])),
                    "in the written file", "in the mapset"))
        sm = a["meta"]
        dm = den["meta"]
        for f in STR_META:
            if f not in dm:
                out.append(f"header tag for {f} is missing from the written file")
            elif dm[f] != sm.get(f):
                out.append(f"header {f}: file says {dm[f]!r}, mapset has {sm.get(f)!r}")
        for f in ("offset", "sample_start", "sample_length"):
            if f not in dm:
                out.append(f"header tag for {f} is missing from the written file")
            elif not near(dm[f], sm[f], 1e-6 * (1 + abs(sm[f]))):
                out.append(f"header {f}: file says {float(dm[f])!r} ms, mapset has {sm[f]!r}")
        if "selectable" not in dm:
            out.append("header tag #SELECTABLE is missing from the written file")
        elif dm["selectable"] != bool(sm.get("selectable")):
            out.append(f"header selectable: file says {dm['selectable']!r}, mapset has {sm.get('selectable')!r}")
        out = [x for x in out if x]
        if out and any(max_measure_rows(ma) > MAX_ROWS for ma in maps):
            out = ["[needs>384rows] " + x for x in out]
        return out

    def cmp_gen(self, dk, d1) -> list[str]:
        out = []
        if len(dk["charts"]) != len(d1["charts"]):
            return [f"{len(dk['charts'])} charts vs {len(d1['charts'])}"]
        # exact when every tempo change of the first generation is on a measure line; otherwise reading reseats the
        # tempo list (new bpm values computed in floats) and C03 promises the written grid: 1/96 beat at the local tempo
        on_lines = all((b["beat"] / 4).denominator == 1 for b in d1["bpms"])
        tl1 = timeline([dict(offset=float(b["offset"]), bpm=float(b["bpm"])) for b in d1["bpms"]])

        def ftol(t):  # shadows the module-level tolerance inside cmp_gen on purpose
            return _FTOL(t) if on_lines else local_tol(tl1, float(t))

        for i, (x, y) in enumerate(zip(dk["charts"], d1["charts"])):
            w = f"chart {i}: "
            for f in ("chart_type", "description", "difficulty", "difficulty_val", "groove_radar"):
                if x[f] != y[f]:
                    out.append(f"{w}header {f}: {x[f]!r} vs {y[f]!r}")
            for k in KINDS_POINT:
                out.append(first_mismatch(w + k, x[k], y[k], lambda p, q: p["column"] == q["column"] and near(p["offset"], q["offset"], ftol(q["offset"])), "later", "first"))
            for k in KINDS_SPAN:
                out.append(first_mismatch(w + k, x[k], y[k], lambda p, q: p["column"] == q["column"] and near(p["offset"], q["offset"], ftol(q["offset"]))
                                          and near(p["end"], q["end"], ftol(q["end"])), "later", "first"))
        # Reading reseats tempo changes onto measure lines (its tempo VALUES before a mid-measure change are
        # rewritten by design, C11): generations are compared on ms positions - every tempo change of the first
        # generation is still a tempo change at that time - and on the objects' times, not on bpm values.
        for q in d1["bpms"]:
            if not any(near(p["offset"], q["offset"], ftol(q["offset"])) for p in dk["bpms"]):
                out.append(f"tempo change at {float(q['offset'])} ms of the first generation is missing later: {[float(p['offset']) for p in dk['bpms']][:8]}")
                break
        for f, v in d1["meta"].items():
            w_ = dk["meta"].get(f)
            if isinstance(v, Fraction):
                if w_ is None or not near(w_, v, 1e-6 * (1 + abs(float(v)))):
                    out.append(f"header {f}: {w_!r} vs first generation {v!r}")
            elif w_ != v:
                out.append(f"header {f}: {w_!r} vs first generation {v!r}")
        return [x for x in out if x]


def _clean(s) -> bool:
    return isinstance(s, str) and not any(ch in s for ch in ":;#\n\r") and "//" not in s and s == s.strip()


def _sm_pipeline_valid(self, doc, c) -> str:
    for b, _ in doc["bpms"]:
        if float(b) % 4:
            return "tempo change off a measure line"
    if c.get("t0_zero") and float(doc["offset"]) != 0:
        return "#OFFSET not 0"
    for ch in doc["charts"]:
        keys = ref_sm.CHART_KEYS.get(ch["type"])
        if keys not in c.get("keys", [keys]):
            return "key count"
        rows = [r for m in ch["measures"] for r in m]
        if any(set(r) - set("0123") for r in rows):
            return "symbols other than taps and holds"
        if not any(r[keys - 1] != "0" for r in rows if len(r) == keys):
            return "last column unused"
    return ""


SMIO.valid_pipeline_doc = _sm_pipeline_valid
