"""Seeded, adaptive session generators (DESIGN §4.1, §4.7, §5).

A generator looks at the live world to produce meaningful concrete arguments;
what is recorded and replayed is the materialised op list only."""
from __future__ import annotations

import random

from . import fields
from .gen_data import gen_rows, gen_row, gen_field, pick_offset, size, CORE_FIELDS, BPMS
from .ops.maps import CONVERTERS
from .snap import alpha_list

ASCII_TITLES = ["Song", "A B", "x", "Title 1", "Caravan", "Escapes!", "q-w_e", "Take"]
UNI_TITLES = ["Song", "曲", "ｆｏｏ", "Ünïcode", "A:B", "日本語 タイトル",
              # characters str.splitlines() / str.split() treat as separators but the formats do not (inside a value)
              "星\u2028空", "音\x85楽", "a\x0cb", "Vol.1\u2029Vol.2", "v\x1cw\x1dx\x1ey", "tab\x0bv"]
CREATORS = ["me", "Evening", "c c", "x_y", ""]
SM_TYPES = {4: "dance-single", 8: "dance-double", 6: "dance-solo", 3: "dance-threepanel", 7: "kb7-single"}
QUA_MODES = {4: "Keys4", 7: "Keys7", 8: "Keys8"}


# ---------------------------------------------------------------- chart generation

def gen_chart(r: random.Random, game: str, hi: int = 8, keys: int | None = None, *, sorted_p=0.6,
              tempo_ok=True, distinct=False, n_bpm=None) -> tuple[dict, dict, int]:
    """(lists, meta, keys) for map.new"""
    if keys is None:
        keys = {
            "osu": r.choice([4, 4, 7, 7, 1, 2, 5, 6, 8, 9, 10]),
            "qua": r.choice([4, 4, 7, 7, 8]),
            "sm": r.choice([4, 4, 7, 6, 8, 3]),
            "bms": r.choice([4, 7, 8, 6]),
            "o2j": 7,
            "base": r.choice([4, 7]),
        }[game]
    slots = fields.GAMES[game]
    srt = r.random() < sorted_p
    lists = {}
    nh = size(r, hi)
    nl = size(r, max(2, hi // 2))
    if nh + nl == 0:
        nh = 1
    seen: set = set()
    hits = gen_rows(r, slots["hits"], nh, keys, seen, sort=srt, distinct_offsets=distinct)
    seen |= {x["offset"] for x in hits}
    holds = gen_rows(r, slots["holds"], nl, keys, seen, sort=srt, distinct_offsets=distinct)
    lists["hits"], lists["holds"] = hits, holds
    first = min([x["offset"] for x in hits + holds])
    nb = n_bpm if n_bpm is not None else r.choice([1, 1, 2, 3, 4])
    bpms = gen_rows(r, slots["bpms"], nb, keys, (), sort=True, distinct_offsets=True)
    if tempo_ok and bpms:
        # first tempo point at or before the first object; later ones strictly inside the chart
        last = max([x["offset"] for x in hits + holds])
        bpms[0]["offset"] = first - r.choice([0.0, 0.0, 100.0, 1000.0, 0.5])
        used = {bpms[0]["offset"]}
        for b in bpms[1:]:
            if last > first:
                t = first + round(r.uniform(0, 1) * (last - first) * 0.9, 1)
            else:
                t = first
            while t in used:
                t = t - 1.0
            if t >= last or t <= bpms[0]["offset"]:
                t = None
            b["offset"] = t
            if t is not None:
                used.add(t)
        bpms = [b for b in bpms if b["offset"] is not None]
        if not srt:
            r.shuffle(bpms)
    lists["bpms"] = bpms
    if "svs" in slots:
        lists["svs"] = gen_rows(r, slots["svs"], r.choice([0, 0, 1, 2, 3]) if hi <= 24 else r.randint(hi // 2, hi * 2), keys, seen, sort=srt)
        if game == "qua" and lists["svs"] and r.random() < 0.25:
            r.choice(lists["svs"])["multiplier"] = 0.0  # a Quaver "stop" SV (osu's domain excludes 0, Quaver's does not)
        if game == "qua" and lists["svs"] and r.random() < 0.2:
            # teleport / stutter values: their repr is exponent notation (1e-05), which YAML 1.1 reads as a string unless the
            # writer prints a dot (1.0e-05)
            r.choice(lists["svs"])["multiplier"] = r.choice([1e-05, 3e-07, 1e16, 2.5e-06])
    if game == "sm":
        for k in ("rolls", "mines", "lifts", "fakes", "keysounds"):
            if r.random() < 0.25:
                lists[k] = gen_rows(r, slots[k], r.choice([1, 2]), keys, seen, sort=srt)
    meta = gen_map_meta(r, game, keys)
    if r.random() < 0.2:
        # charts built from integer literals: int64 time columns (Hit(offset=1000, ...))
        for rows in lists.values():
            for row in rows:
                for c in ("offset", "length"):
                    if c in row and isinstance(row[c], float) and row[c].is_integer() and abs(row[c]) < 1e9:
                        row[c] = int(row[c])
    return lists, meta, keys


def gen_map_meta(r: random.Random, game: str, keys: int) -> dict:
    t, a = r.choice(ASCII_TITLES), r.choice(ASCII_TITLES)
    if game == "osu":
        m = dict(title=t, artist=a, title_unicode=r.choice(UNI_TITLES), artist_unicode=r.choice(UNI_TITLES),
                 creator=r.choice(CREATORS), version=r.choice(["Easy", "Hard", "x y", "7K"]),
                 circle_size=float(keys), preview_time=r.choice([-1, 0, 1000, 12345, 3600000, -5000]),
                 audio_file_name="audio.mp3", background_file_name=r.choice(["bg.jpg", "", "a,b.png"]),
                 tags=list(r.choice([[], ["a"], ["a", "b"]])))
        if r.random() < 0.4:
            m["samples"] = gen_rows(r, "OsuSampleList", r.choice([1, 2, 3]))
            if r.random() < 0.3:
                # a marathon chart: a sample event past 1 000 000 ms on a time that is not a multiple of 10
                # (seven significant digits: a six-digit print loses the last one)
                r.choice(m["samples"])["offset"] = r.choice([1333332.0, 2099997.0, 1049998.0, 1646083.0])
        return m
    if game == "qua":
        return dict(title=t, artist=a, creator=r.choice(CREATORS), difficulty_name=r.choice(["Easy", "Hard", "x y"]),
                    mode=QUA_MODES.get(keys, "Keys4"), audio_file="audio.mp3", background_file=r.choice(["bg.jpg", ""]),
                    song_preview_time=r.choice([0, 1000, 12345]), tags=list(r.choice([[], ["a"], ["a", "b"]])),
                    description=r.choice(["", "", "d", "l1\nl2\n\nl4", "ends with a break\n", "Don\x85t stop", "a\x85\nb"]),
                    source=r.choice(["", "src", "two\nlines"]))
    if game == "sm":
        ctype = SM_TYPES.get(keys, "dance-single")
        if keys == 8 and r.random() < 0.5:
            ctype = r.choice(["dance-couple", "dance-routine"])  # StepMania's other 8-column dance types
        return dict(chart_type=ctype, description=r.choice(["", "d"]),
                    difficulty=r.choice(["Easy", "Hard", "Challenge"]), difficulty_val=r.choice([1, 5, 12]))
    if game == "bms":
        m = dict(title=t.encode("ascii"), artist=a.encode("ascii"), version=r.choice([b"1", b"12", b"5"]),
                 samples_dict={b"01": b"a.wav", b"02": b"kick.ogg"} if r.random() < 0.5 else {})
        if r.random() < 0.3:
            m["ln_end_channel"] = r.choice([b"", b"ZY"])  # a chart read from a file without / with another #LNOBJ
        return m
    return {}


def gen_set_meta(r: random.Random, game: str) -> dict:
    t, a = r.choice(ASCII_TITLES), r.choice(ASCII_TITLES)
    if game == "sm":
        return dict(title=t, artist=a, credit=r.choice(CREATORS), music="audio.mp3", background=r.choice(["bg.jpg", ""]),
                    offset=r.choice([0.0, 100.0, -250.0, 1234.5]), sample_start=r.choice([0.0, 1000.0, 30500.0, -1000.0, 3600000.0]),
                    sample_length=r.choice([10000.0, 12000.0, 0.0, 1.0]), selectable=r.random() < 0.7,
                    title_translit=r.choice(["", "tt"]), artist_translit=r.choice(["", "at"]))
    if game == "o2j":
        return dict(title=t, artist=a, creator=r.choice(CREATORS), level=[r.randint(1, 30), r.randint(1, 30), r.randint(1, 30), 0],
                    bpm=float(r.choice(BPMS)))
    return {}


# ---------------------------------------------------------------- generator base

class Gen:
    """Weighted producers over the live world.  `table` maps producer name ->
    weight; a producer returns an op dict, a list of op dicts (macro) or None."""

    table: dict = {}
    max_handles = 10

    def __init__(self, sess, streams, tier: str):
        self.s = sess
        self.w = sess.world
        self.r = streams["ops"]
        self.d = streams["data"]
        self.tier = tier
        self.queue: list[dict] = []
        self.scale = int((getattr(sess, "knobs", None) or {}).get("scale", 1) or 1)
        self.hi = (8 if tier == "quick" else 20) * self.scale
        self.setup()

    def setup(self):
        pass

    # ---- helpers
    def new_h(self):
        return self.s.fresh_handle()

    def mk(self, kind, **kw):
        op = dict(id=self.s.fresh_op_id(), op=kind)
        op.update(kw)
        return op

    def pick(self, *kinds, pred=None):
        hs = [h for h in self.w.h.values() if h.kind in kinds and (pred is None or pred(h))]
        return self.r.choice(hs) if hs else None

    def lists(self, pred=None):
        return [h for h in self.w.h.values() if h.kind == "list" and (pred is None or pred(h))]

    def next_op(self):
        if self.queue:
            return self.queue.pop(0)
        if len(self.w.h) > self.max_handles:
            return self.p_drop()
        names = list(self.table.keys())
        weights = [self.table[n] for n in names]
        for _ in range(40):
            n = self.r.choices(names, weights)[0]
            res = getattr(self, "p_" + n)()
            if res is None:
                continue
            if isinstance(res, list):
                self.queue = res[1:]
                return res[0]
            return res
        return None

    # ---- world management
    def p_drop(self):
        hs = list(self.w.h.values())
        k = max(1, len(hs) - self.max_handles + 3)
        victims = self.r.sample(hs, k)
        return self.mk("drop", hs=[v.name for v in victims])

    # ---- list producers
    list_classes = list(fields.LISTS.keys())

    def p_list_new(self, cls=None, how=None):
        cls = cls or self.r.choice(self.list_classes)
        how = how or self.r.choice(["items", "items", "items", "dict_rows", "dict_cols", "empty", "df", "single_item"])
        keys = self.r.choice([4, 7])
        n = size(self.d, self.hi)
        if how == "empty":
            return self.mk("list.new", cls=cls, how=how, n=self.d.choice([0, 1, 2, 3, 5]), out=self.new_h(), keys=keys)
        if how == "single_item":
            n = 1
        rows = gen_rows(self.d, cls, n, keys, sort=self.d.random() < 0.4)
        if how in ("dict_rows", "dict_cols"):
            if not rows:
                return None
            # omit some non-core fields (documented: from_dict fills defaults)
            omit = [f for f in fields.declared(cls) if f not in CORE_FIELDS and self.d.random() < 0.4]
            rows = [{k: v for k, v in r.items() if k not in omit} for r in rows]
        return self.mk("list.new", cls=cls, how=how, rows=rows, out=self.new_h(), keys=keys)

    def p_list_wrap(self):
        h = self.pick("list")
        return h and self.mk("list.wrap", h=h.name, out=self.new_h())

    def p_list_query(self):
        h = self.pick("list")
        return h and self.mk("list.query", h=h.name, q=self.r.choice(["len", "first_offset", "last_offset", "first_last_offset"]))

    def p_get_int(self):
        h = self.pick("list")
        if not h:
            return None
        n = len(h.obj.df)
        i = self.r.choice([0, -1, n - 1, -n, n, -n - 1, self.r.randint(-n - 1, n + 1)])
        keep = self.r.random() < 0.3
        op = self.mk("list.get_int", h=h.name, i=i, out=self.new_h() if keep else None)
        if self.r.random() < 0.25:
            op["np_int"] = True
        return op

    def p_slice(self):
        h = self.pick("list")
        if not h:
            return None
        n = len(h.obj.df)
        c = lambda: self.r.choice([None, 0, 1, -1, n, n // 2, self.r.randint(-n - 1, n + 1)])
        return self.mk("list.get_slice", h=h.name, a=c(), b=c(), s=self.r.choice([None, None, None, None, 2, -1]), out=self.new_h())

    def p_mask(self):
        h = self.pick("list")
        if not h:
            return None
        n = len(h.obj.df)
        p = self.r.choice([0.0, 0.3, 0.5, 0.8, 1.0])
        mask = [self.r.random() < p for _ in range(n)]
        # an empty python list is not a boolean mask for pandas (it selects zero COLUMNS): use typed forms
        forms = ["list", "array", "series"] if n else ["array", "series"]
        return self.mk("list.get_mask", h=h.name, mask=mask, form=self.r.choice(forms), out=self.new_h())

    def p_iter(self):
        h = self.pick("list")
        return h and self.mk("list.iter", h=h.name)

    def p_sorted(self):
        h = self.pick("list")
        return h and self.mk("list.sorted", h=h.name, reverse=self.r.random() < 0.4, out=self.new_h())

    def p_sort_edit_sort(self):
        """sorted() -> an in-place edit of the RESULT that puts its rows out of order -> sorted() again on that same object:
        anything the first sort remembered about the order is stale by then"""
        h = self.pick("list", pred=lambda x: len(x.obj.df) >= 2 and "offset" in x.obj.df.columns and not x.obj.df.isna().any().any()
                      and str(x.obj.df["offset"].dtype) != "object")
        if not h:
            return None
        a, b = self.new_h(), self.new_h()
        return [self.mk("list.sorted", h=h.name, reverse=False, out=a),
                self.mk("list.col_arith", h=a, col="offset", opr="*", v=-1),
                self.mk("list.sorted", h=a, reverse=self.r.random() < 0.2, out=b)]

    def p_append(self):
        h = self.pick("list", pred=lambda x: x.meta.get("cls") in fields.LISTS)
        if not h:
            return None
        cls = h.meta["cls"]
        same = [x for x in self.w.h.values() if x.kind in ("list", "item") and x.meta.get("cls") == cls and
                (x.kind == "item" or set(x.obj.df.columns) == set(h.obj.df.columns))]
        same = [x for x in same if x.kind == "list" or set(x.obj.data.index) == set(h.obj.df.columns)]
        if same and self.r.random() < 0.7:
            x = self.r.choice(same)
            return self.mk("list.append", h=h.name, x=x.name, form=self.r.choice(["obj", "obj", "pandas"]),
                           sort=self.r.random() < 0.4, out=self.new_h())
        # macro: create an item-source list of the same class with the same columns, then append
        if set(h.obj.df.columns) != set(fields.declared(cls)):
            return None
        nm = self.new_h()
        offs = h.obj.df["offset"].tolist() if "offset" in h.obj.df.columns else []
        rows = gen_rows(self.d, cls, self.d.choice([1, 1, 2, 3]), h.meta.get("keys", 4), offs)
        return [
            self.mk("list.new", cls=cls, how="items", rows=rows, out=nm, keys=h.meta.get("keys", 4)),
            self.mk("list.append", h=h.name, x=nm, form=self.r.choice(["obj", "obj", "pandas"]), sort=self.r.random() < 0.4, out=self.new_h()),
        ]

    def _bound(self, h):
        df = h.obj.df
        cands = []
        if len(df) and "offset" in df.columns:
            cands += [float(x) for x in df["offset"].tolist()]
            if "length" in df.columns:
                cands += [float(a + b) for a, b in zip(df["offset"].tolist(), df["length"].tolist()) if b == b]
        cands = [c for c in cands if c == c]
        x = self.r.random()
        if cands and x < 0.55:
            return self.r.choice(cands)
        if cands and x < 0.8:
            return self.r.choice(cands) + self.r.choice([-1.0, 1.0, 0.5, -0.25])
        return pick_offset(self.d)

    def p_filter(self):
        h = self.pick("list", pred=lambda x: "offset" in x.obj.df.columns and not x.obj.df["offset"].isna().any())
        if not h:
            return None
        hold = fields.role(h.meta.get("cls", "TimedList")) == "hold" and "length" in h.obj.df.columns
        if hold and h.obj.df["length"].isna().any():
            return None
        if hold and (h.obj.df["length"] < 0).any():
            hold_flags = False  # negative lengths: head/tail variants are documented as unsupported
        else:
            hold_flags = hold
        f = self.r.choice(["after", "before", "between"])
        op = self.mk("list.filter", h=h.name, f=f, out=self.new_h())
        if f in ("after", "between"):
            op["lo"] = self._bound(h)
            op["inc_lo"] = self.r.random() < 0.5
            if hold_flags and self.r.random() < 0.6:
                op["tail"] = self.r.random() < 0.5
        if f in ("before", "between"):
            op["hi"] = self._bound(h)
            op["inc_hi"] = self.r.random() < 0.5
            if hold_flags and self.r.random() < 0.6:
                op["head"] = self.r.random() < 0.5
        if f == "between":
            if not hold and op["inc_lo"] == op["inc_hi"] and self.r.random() < 0.5:
                op["ends_as_bool"] = True
            if self.r.random() < 0.15:
                op["default_ends"] = True
        return op

    def p_move(self):
        h = self.pick("list", pred=lambda x: len(x.obj.df) > 0 and "offset" in x.obj.df.columns and not x.obj.df.isna().any().any())
        return h and self.mk("list.move", h=h.name, which=self.r.choice(["start", "end"]), to=pick_offset(self.d), out=self.new_h())

    def p_list_deepcopy(self):
        h = self.pick("list")
        return h and self.mk("list.deepcopy", h=h.name, out=self.new_h())

    INT_COLS = {"column", "hitsound_set", "sample_set", "addition_set", "custom_set", "volume", "pan", "sample_set_index"}
    FLOAT_COLS = {"offset", "length", "bpm", "multiplier"}

    def _arith(self, col):
        if col in self.INT_COLS:
            return self.r.choice(["+", "-", "*"]), self.r.choice([1, 2, 3])
        opr = self.r.choice(["+", "-", "*", "/"])
        if opr in "+-":
            v = self.r.choice([1.0, 100.0, 0.5, 1000.0, 250.25, 3])
        else:
            v = self.r.choice([2.0, 0.5, 1.5, 1.1, 3, 0.75])
        return opr, v

    def p_col_arith(self, pred=None):
        h = self.pick("list", pred=lambda x: len(x.obj.df.columns) > 0 and not x.obj.df.isna().any().any() and (pred is None or pred(x)))
        if not h:
            return None
        cols = [c for c in h.obj.df.columns if c in self.INT_COLS | self.FLOAT_COLS]
        if not cols:
            return None
        col = self.r.choice(cols)
        if str(h.obj.df[col].dtype) == "object":
            return None
        opr, v = self._arith(col)
        if str(h.obj.df[col].dtype).startswith("int") and not isinstance(v, int):
            v = int(v) if float(v).is_integer() and opr != "/" else None
            if v is None:
                return None
        return self.mk("list.col_arith", h=h.name, col=col, opr=opr, v=v)

    def p_setitem(self, pred=None):
        h = self.pick("list", pred=lambda x: len(x.obj.df) > 0 and not x.obj.df.isna().any().any() and (pred is None or pred(x)))
        if not h:
            return None
        cols = [c for c in h.obj.df.columns if c in self.FLOAT_COLS and str(h.obj.df[c].dtype) == "float64"]
        if not cols:
            return None
        col = self.r.choice(cols)
        v = gen_field(self.d, col)
        return self.mk("list.setitem", h=h.name, i=self.r.randrange(len(h.obj.df)), col=col, v=float(v))

    def p_bpm_query(self):
        h = self.pick("list", pred=lambda x: fields.role(x.meta.get("cls", "TimedList")) == "bpm" and len(x.obj.df) > 0
                      and not x.obj.df.isna().any().any() and set(fields.declared(x.meta["cls"])) <= set(x.obj.df.columns))
        if not h:
            return None
        q = self.r.choice(["current_bpm", "to_timing_map", "ave_bpm", "time_diff", "snap_offsets"])
        return self.mk("bpms.query", h=h.name, q=q, t=self._bound(h), nths=self.r.choice([1.0, 2.0, 4.0]))

    # ---- map producers
    games = ["osu", "qua", "sm", "bms", "o2j", "base"]

    def p_map_new(self, game=None, **kw):
        game = game or self.r.choice(self.games)
        lists, meta, keys = gen_chart(self.d, game, self.hi, **kw)
        return self.mk("map.new", game=game, lists=lists, meta=meta, how=self.d.choice(["items", "items", "items", "items", "df", "df", "df_extra"]), out=self.new_h(), keys=keys)

    def p_mapset_new(self, game=None):
        game = game or self.r.choice(["sm", "o2j", "base"])
        n = self.r.choice([1, 2, 3]) if game != "o2j" else 3
        ops, names = [], []
        shared_bpms = None
        inner = game
        if game == "base":
            inner = self.r.choice(["base", "osu", "osu", "qua", "bms"])
        prev_lists = None
        # a StepMania set built from objects may give each chart a tempo list of its own (a file never does)
        per_chart_bpms = game == "sm" and self.d.random() < self.sm_per_chart_bpms_p
        for i in range(n):
            lists, meta, keys = gen_chart(self.d, inner, self.hi, keys=7 if game == "o2j" else None)
            if game == "o2j" and prev_lists is not None and self.d.random() < 0.25:
                # two levels of a set with equal content (distinct objects): as in files whose Easy and Normal are the same chart
                import copy as _copy

                lists = _copy.deepcopy(prev_lists)
            prev_lists = lists
            if game == "sm" and not per_chart_bpms:
                if shared_bpms is None:
                    shared_bpms = lists["bpms"]
                lists["bpms"] = [dict(b) for b in shared_bpms]
            if self.propless_chart_p and n > 1 and i < n - 1 and self.d.random() < self.propless_chart_p:
                # a chart - not the last of the set - in which no object carries some property: its row of the mapset
                # stack's frame for that property is entirely NaN
                mode = self.d.choice(["no_holds", "no_holds", "no_notes", "no_bpms", "empty"])
                if game == "sm" and mode in ("no_bpms", "empty"):
                    mode = "no_notes"  # StepMania charts share the set's tempo list
                for k in list(lists):
                    if (mode == "no_holds" and k in ("holds", "rolls")) or (mode == "no_notes" and k not in ("bpms", "svs")) \
                            or (mode == "no_bpms" and k == "bpms") or mode == "empty":
                        lists[k] = []
            nm = self.new_h()
            names.append(nm)
            ops.append(self.mk("map.new", game=inner, lists=lists, meta=meta, how="items", out=nm, keys=keys))
        ops.append(self.mk("mapset.new", game=game, maps=names, meta=gen_set_meta(self.d, game), out=self.new_h()))
        return ops

    def p_mapset_get_map(self):
        h = self.pick("mapset", pred=lambda x: len(x.obj.maps) > 0)
        return h and self.mk("mapset.get_map", h=h.name, i=self.r.randrange(len(h.obj.maps)), out=self.new_h())

    def p_map_get_list(self):
        h = self.pick("map")
        return h and self.mk("map.get_list", h=h.name, key=self.r.choice(list(h.obj.objs.keys())), out=self.new_h())

    def p_map_assign_list(self):
        h = self.pick("map")
        if not h:
            return None
        key = self.r.choice(list(h.obj.objs.keys()))
        ty = type(h.obj.objs[key])
        cands = self.lists(lambda x: type(x.obj) is ty and set(x.obj.df.columns) >= set(fields.declared(type(x.obj).__name__))
                           and not x.obj.df.isna().any().any())
        if not cands:
            return None
        return self.mk("map.assign_list", h=h.name, key=key, x=self.r.choice(cands).name)

    def p_map_edit_list(self):
        """history macro: take a list out of a chart, transform it, put it back"""
        h = self.pick("map")
        if not h:
            return None
        keys = [k for k, v in h.obj.objs.items() if len(v.df) > 0]
        if not keys:
            return None
        key = self.r.choice(keys)
        a, b = self.new_h(), self.new_h()
        ops = [self.mk("map.get_list", h=h.name, key=key, out=a)]
        tl = h.obj.objs[key]
        n = len(tl.df)
        t = self.r.choice(["mask", "sorted", "filter", "append", "slice"])
        if t == "mask":
            mask = [self.r.random() < 0.7 for _ in range(n)]
            if key == "bpms" and n:
                mask[0] = True
            ops.append(self.mk("list.get_mask", h=a, mask=mask, form=self.r.choice(["list", "series"]), out=b))
        elif t == "sorted":
            ops.append(self.mk("list.sorted", h=a, reverse=self.r.random() < 0.6, out=b))
        elif t == "filter":
            off = sorted(tl.df["offset"].tolist())
            lo = off[len(off) // 3] if key != "bpms" else off[0]
            ops.append(self.mk("list.filter", h=a, f="after", lo=float(lo), inc_lo=True, out=b))
        elif t == "slice":
            ops.append(self.mk("list.get_slice", h=a, a=0 if key == "bpms" else self.r.choice([0, 1]), b=self.r.choice([None, n - 1 if n > 1 else None]), s=None, out=b))
        else:
            cls = type(tl).__name__
            if set(tl.df.columns) != set(fields.declared(cls)):
                return None
            c = self.new_h()
            rows = gen_rows(self.d, cls, self.d.choice([1, 2]), h.meta.get("keys", 4), ())
            lo = min(tl.df["offset"].tolist())
            for rr in rows:
                rr["offset"] = float(lo + abs(rr["offset"]) % 5000 + 1)
            ops.append(self.mk("list.new", cls=cls, how="items", rows=rows, out=c, keys=h.meta.get("keys", 4)))
            ops.append(self.mk("list.append", h=a, x=c, form="obj", sort=self.r.random() < 0.3, out=b))
        ops.append(self.mk("map.assign_list", h=h.name, key=key, x=b))
        return ops

    def p_map_deepcopy(self):
        h = self.pick("map", "mapset")
        return h and self.mk("map.deepcopy", h=h.name, out=self.new_h())

    RATES = [0.5, 0.75, 1, 1.0, 1.1, 1.5, 2, 2.0, 1 / 3, 1.25]
    propless_chart_p = 0.0  # chance that a non-last chart of a generated set lacks holds / notes / tempo points
    sm_per_chart_bpms_p = 0.0  # chance that the charts of a generated StepMania set do not share one tempo list

    def p_rate(self):
        h = self.pick("map", "mapset", pred=self._rate_ok)
        if not h:
            return None
        r = self.r.choice(self.RATES) if self.r.random() < 0.8 else round(self.d.uniform(0.1, 4), 3)
        return self.mk("map.rate", h=h.name, r=r, out=self.new_h())

    @staticmethod
    def _rate_ok(h):
        ms = [h.obj] if h.kind == "map" else list(h.obj.maps)
        if not ms:
            return False
        for m in ms:
            for k, tl in m.objs.items():
                if tl.df.isna().any().any():
                    return False
                if not set(fields.declared(type(tl).__name__)) <= set(tl.df.columns):
                    return False
        return True

    def p_stack(self):
        h = self.pick("map", "mapset", pred=self._rate_ok)
        if not h:
            return None
        inc = None
        if h.kind == "map" and self.r.random() < 0.3:
            inc = self.r.choice([["notes"], ["hits"], ["holds"], ["bpms"], ["hits", "holds"], ["notes", "bpms"],
                                 ["holds", "hits"], ["bpms", "notes"], ["bpms", "hits"], ["notes", "holds"], ["hits", "notes"]])
        return self.mk("map.stack", h=h.name, include=inc, out=self.new_h())

    def _fresh_stackers(self, okind=None):
        return [h for h in self.w.h.values() if h.kind == "stacker" and h.name not in self.w.stale
                and h.meta.get("of") in self.w.h and (okind is None or h.meta["okind"] == okind)]

    def _stack_cols(self, h):
        owner = self.w.h[h.meta["of"]]
        from .ops.maps import stack_members

        if h.meta["okind"] == "map":
            ms = [(owner.obj, stack_members(owner.obj, h.meta.get("include")))]
        else:
            ms = [(m, list(m.objs.keys())) for m in owner.obj.maps]
        common = None
        for m, members in ms:
            present = {c for k in members for c in m.objs[k].df.columns}
            common = present if common is None else (common & present)
        return sorted(common or [])

    def p_stack_read(self):
        ss = self._fresh_stackers("map")
        if not ss:
            return None
        h = self.r.choice(ss)
        cols = self._stack_cols(h)
        col = self.r.choice(cols + ["length", "bpm"]) if cols else "offset"
        props = {"offset", "column", "length", "bpm", "metronome"}
        return self.mk("stack.read", h=h.name, col=col, via="attr" if col in props else "item")

    STACK_NUM = ["offset", "column", "length", "bpm", "metronome", "volume", "multiplier"]

    def _stack_arith(self, col):
        if col in ("column", "metronome"):
            return self.r.choice(["+", "-", "*"]), self.r.choice([1, 2])
        if col == "volume":
            # fractional results on an integer-typed column are ordinary arithmetic too (volume *= 0.5)
            return self.r.choice([("+", 1), ("-", 2), ("*", 2), ("*", 0.5), ("/", 4), ("*", 0.3), ("+", 0.25)])
        return self._arith(col)

    def p_stack_assign(self):
        ss = self._fresh_stackers()
        if not ss:
            return None
        h = self.r.choice(ss)
        props = ["offset", "column", "length", "bpm", "metronome"]
        cols = [c for c in self._stack_cols(h) if c in props]
        if not cols:
            return None
        col = self.r.choice(cols)
        opr, v = self._stack_arith(col)
        if self.r.random() < 0.12:
            opr, v = "=", (self.r.choice([0, 1, 2]) if col in ("column", "metronome") else float(self.r.choice([0.0, 100.0, 1.5])))
            if col == "metronome":
                v = 4
        return self.mk("stack.assign", h=h.name, cols=[col], opr=opr, v=v, form=self.r.choice(["aug", "aug", "pure"]))

    def _mask_expr(self, h, depth=0):
        cols = [c for c in self._stack_cols(h) if c in ("offset", "column", "length", "bpm", "volume", "multiplier")]
        if not cols:
            return ["all"]
        x = self.r.random()
        if depth < 2 and x < 0.3:
            return [self.r.choice(["and", "or"]), self._mask_expr(h, depth + 1), self._mask_expr(h, depth + 1)]
        if depth < 2 and x < 0.4:
            return ["not", self._mask_expr(h, depth + 1)]
        col = self.r.choice(cols)
        owner = self.w.h[h.meta["of"]]
        vals = []
        for tl in owner.obj.objs.values():
            if col in tl.df.columns:
                vals += [x for x in tl.df[col].tolist() if x == x]
        v = self.r.choice(vals) if vals and self.r.random() < 0.7 else gen_field(self.d, col) if col != "volume" else 50
        if isinstance(v, bool):
            v = int(v)
        return ["cmp", col, self.r.choice(["<", "<=", ">", ">=", "==", "!="]), float(v) if not isinstance(v, int) else v]

    def p_stack_loc(self):
        ss = self._fresh_stackers("map")
        if not ss:
            return None
        h = self.r.choice(ss)
        avail = [c for c in self._stack_cols(h) if c in self.STACK_NUM]
        if not avail:
            return None
        owner = self.w.h[h.meta["of"]]
        # object/bool columns are not used as arithmetic targets
        k = 1 if self.r.random() < 0.7 else 2
        cols = self.r.sample(avail, min(k, len(avail)))
        if len(cols) == 2 and ({"column", "volume", "metronome"} & set(cols)) and ({"offset", "length", "bpm", "multiplier"} & set(cols)):
            cols = cols[:1]
        opr, v = self._stack_arith(cols[0])
        if self.r.random() < 0.15:
            opr = "="
            v = 1 if cols[0] in ("column", "volume", "metronome") else float(self.r.choice([0.0, 100.0, 1.5]))
            if "metronome" in cols:
                v = 4
            elif not ({"column", "volume"} & set(cols)) and self.r.random() < 0.25:
                v = float("nan")  # a missing value is a value too: the selected cells become NaN in the lists
        if "bpm" in cols and opr == "-":
            opr = "+"
        op = self.mk("stack.assign", h=h.name, cols=cols, mask=self._mask_expr(h), opr=opr, v=v,
                     cols_as_list=(len(cols) > 1 or self.r.random() < 0.3))
        if self.r.random() < 0.4:
            op["mask_form"] = self.r.choice(["reversed", "by_value", "list", "ndarray"])
        return op

    def p_convert(self, conv=None):
        # a converted chart as the SOURCE of another converter is not among the histories C08 lists
        hs = [h for h in self.w.h.values() if h.kind in ("map", "mapset") and self._rate_ok(h) and not h.meta.get("converted")]
        if not hs:
            return None
        h = self.r.choice(hs)
        cands = [c for c, spec in CONVERTERS.items() if spec[0] == h.game and spec[1] == h.kind]
        if conv:
            cands = [c for c in cands if c == conv]
        if not cands:
            return None
        c = self.r.choice(cands)
        spec = CONVERTERS[c]
        n = 1 if spec[3] in ("map", "mapset", "mapset_merged") else len(h.obj.maps)
        op = self.mk("convert", conv=c, h=h.name, outs=[self.new_h() for _ in range(n)])
        if spec[4]:
            op["shift"] = self.r.choice([None, 0, 1, 2])
            if op["shift"] is not None and self.r.random() < 0.5:
                op["shift_positional"] = True
        if spec[6] and self.r.random() < 0.4:
            op["rbm"] = self.r.choice([False, False, True])  # the non-default raise_bad_mode
        return op

    # ---- algorithms
    def p_full_ln(self):
        h = self.pick("map", pred=self._rate_ok)
        return h and self.mk("alg.full_ln", h=h.name, gap=self.r.choice([150, 0, 50, 100.5]), thres=self.r.choice([100, 0, 50]), out=self.new_h())

    def p_hitsound_copy(self):
        hs = [h for h in self.w.h.values() if h.kind == "map" and h.game == "osu" and self._rate_ok(h)]
        if len(hs) < 1:
            return None
        a, b = self.r.choice(hs), self.r.choice(hs)
        return self.mk("alg.hitsound_copy", src=a.name, tgt=b.name, out=self.new_h())

    def p_analysis(self):
        h = self.pick("map", pred=self._rate_ok)
        if not h:
            return None
        f = self.r.choice(["sv_normalize", "scroll_speed", "dominant_bpm"])
        if f == "sv_normalize" and h.game not in ("osu", "qua"):
            f = "scroll_speed"
        return self.mk("alg.analysis", h=h.name, f=f, override=self.r.choice([None, None, 150.0]),
                       out=self.new_h() if f == "sv_normalize" else None)

    def p_pattern(self):
        h = self.pick("map", pred=self._rate_ok)
        return h and self.mk("alg.pattern", h=h.name, v=self.r.choice([50.0, 0.0, 100.0, 1000.0]), hw=self.r.choice([None, 0, 1, 2]),
                             avoid_jack=self.r.random() < 0.5, size=self.r.choice([2, 3]), tails=self.r.random() < 0.5)

    def p_describe(self):
        h = self.pick("map", pred=self._rate_ok)
        return h and self.mk("map.describe", h=h.name)

    def p_append_cross(self):
        """append a list of the BASE class (fewer columns) to a game list: the result has NaN there, the argument stays as it was"""
        h = self.pick("list", pred=lambda x: x.meta.get("cls") in fields.LISTS and fields.role(x.meta["cls"]) in ("hit", "hold", "bpm")
                      and x.meta["cls"] not in ("HitList", "HoldList", "BpmList") and set(x.obj.df.columns) == set(fields.declared(x.meta["cls"])))
        if not h:
            return None
        base = {"hit": "HitList", "hold": "HoldList", "bpm": "BpmList"}[fields.role(h.meta["cls"])]
        x = self.new_h()
        rows = gen_rows(self.d, base, self.d.choice([1, 2, 3]), h.meta.get("keys", 4))
        return [self.mk("list.new", cls=base, how=self.d.choice(["items", "df"]), rows=rows, out=x, keys=h.meta.get("keys", 4)),
                self.mk("list.append", h=h.name, x=x, form=self.r.choice(["obj", "pandas"]), sort=self.r.random() < 0.3, out=self.new_h())]

    def p_copy_then_mutate(self):
        """a result documented as a copy is edited in place right away (C14: no shared mutable state), including
        the corner cases where nothing had to be copied: empty operands, all-true masks, already sorted lists"""
        h = self.pick("list", pred=lambda x: x.meta.get("cls") in fields.LISTS and "offset" in x.obj.df.columns
                      and not x.obj.df.isna().any().any() and set(x.obj.df.columns) == set(fields.declared(x.meta["cls"])))
        if not h:
            return None
        cls, n = h.meta["cls"], len(h.obj.df)
        out = self.new_h()
        how = self.r.choice(["append_empty", "append_empty", "append", "sorted", "mask_all", "filter_all", "deepcopy", "slice_copy"])
        ops = []
        if how in ("append_empty", "append"):
            x = self.new_h()
            rows = [] if how == "append_empty" else gen_rows(self.d, cls, 1, h.meta.get("keys", 4))
            ops.append(self.mk("list.new", cls=cls, how="items", rows=rows, out=x, keys=h.meta.get("keys", 4)))
            ops.append(self.mk("list.append", h=h.name, x=x, form=self.r.choice(["obj", "pandas"]), sort=False, out=out))
        elif how == "sorted":
            ops.append(self.mk("list.sorted", h=h.name, reverse=False, out=out))
        elif how == "mask_all":
            if not n:
                return None
            ops.append(self.mk("list.get_mask", h=h.name, mask=[True] * n, form=self.r.choice(["list", "array", "series"]), out=out))
        elif how == "filter_all":
            if not n:
                return None
            lo = float(min(h.obj.df["offset"].tolist())) - 1.0
            ops.append(self.mk("list.filter", h=h.name, f="after", lo=lo, inc_lo=True, out=out))
        elif how == "deepcopy":
            ops.append(self.mk("list.deepcopy", h=h.name, out=out))
        else:
            if not n:
                return None
            ops.append(self.mk("list.get_mask", h=h.name, mask=[True] * n, form="list", out=out))
        col = self.r.choice([c for c in ("offset", "length", "bpm", "multiplier") if c in h.obj.df.columns])
        if str(h.obj.df[col].dtype) != "float64":
            opr, v = self.r.choice([("+", 1), ("*", 2), ("-", 3)])
        else:
            opr, v = self._arith(col)
        ops.append(self.mk("list.col_arith", h=out, col=col, opr=opr, v=v))
        return ops

    # ---- mutate a *result* afterwards (C14 second clause)
    def p_mutate_result(self):
        """in-place edit on (a list of) a handle that is documented as a copy"""
        hs = [h for h in self.w.h.values() if h.meta.get("copy_of") and h.kind in ("map", "mapset", "list")]
        hs += [h for h in self.w.h.values() if h.kind == "list" and len(self.w.alias_class(h.name)) == 1]
        if not hs:
            return None
        h = self.r.choice(hs)
        if h.kind == "list":
            return self.p_col_arith(pred=lambda x: x.name == h.name) or self.p_setitem(pred=lambda x: x.name == h.name)
        import dataclasses as _dc

        has_boxes = _dc.is_dataclass(h.obj) and any(isinstance(getattr(h.obj, f.name, None), (list, dict)) for f in _dc.fields(h.obj)
                                                    if not f.name.startswith("_") and f.name not in ("objs", "maps"))
        if has_boxes and self.r.random() < 0.4:
            # the result's list- / dict-valued header fields are its own too (o2jam level lists, osu tags, BMS sample table)
            return self.mk("meta.mutate", h=h.name, field_ix=self.r.randrange(8), how=self.r.choice(["setitem", "append"]))
        if h.kind == "mapset":
            if not h.obj.maps:
                return None
            a = self.new_h()
            return [self.mk("mapset.get_map", h=h.name, i=self.r.randrange(len(h.obj.maps)), out=a)]
        keys = [k for k, v in h.obj.objs.items() if len(v.df) > 0 and not v.df.isna().any().any()]
        if not keys:
            return None
        key = self.r.choice(keys)
        a = self.new_h()
        tl = h.obj.objs[key]
        col = self.r.choice([c for c in tl.df.columns if c in ("offset", "length", "bpm", "multiplier")] or ["offset"])
        if col not in tl.df.columns:
            return None
        opr, v = self._arith(col)
        return [self.mk("map.get_list", h=h.name, key=key, out=a), self.mk("list.col_arith", h=a, col=col, opr=opr, v=v)]


# ---------------------------------------------------------------- scenarios

class GenC16(Gen):
    table = dict(list_new=14, list_wrap=3, list_query=10, get_int=10, slice=8, mask=6, iter=5, sorted=7, append=8,
                 filter=16, list_deepcopy=2, col_arith=5, setitem=3, move=1, map_new=1, map_get_list=2, map_assign_list=1, sort_edit_sort=3)

    def setup(self):
        k = self.r.random()
        if k < 0.5:  # swarm: concentrate on a few classes
            self.list_classes = self.r.sample(list(fields.LISTS.keys()), 3)


class GenC14(Gen):
    table = dict(list_new=6, list_wrap=2, list_query=2, get_int=2, slice=3, mask=3, iter=2, sorted=4, append=4, filter=5,
                 move=4, list_deepcopy=3, bpm_query=4, col_arith=3, setitem=1,
                 map_new=8, mapset_new=3, mapset_get_map=1, map_get_list=4, map_assign_list=2, map_edit_list=3,
                 map_deepcopy=4, rate=5, stack=2, stack_read=2, stack_assign=2, stack_loc=1, convert=7,
                 full_ln=4, hitsound_copy=3, analysis=7, pattern=3, describe=2, mutate_result=8, copy_then_mutate=8, append_cross=3)


class GenC12(Gen):
    propless_chart_p = 0.4

    def p_map_new(self, *a, **k):
        op = super().p_map_new(*a, **k)
        if isinstance(op, dict) and op.get("op") == "map.new" and self.r.random() < 0.12:
            op["how"] = "df_dup_labels"  # lists whose row labels repeat: the stack must still write through row by row
        return op

    table = dict(map_new=8, mapset_new=3, map_edit_list=5, stack=10, stack_read=6, stack_assign=14, stack_loc=14,
                 map_get_list=2, col_arith=1, map_deepcopy=1, rate=1)
    max_handles = 8


class GenC08(Gen):
    sm_per_chart_bpms_p = 0.35
    table = dict(map_new=8, mapset_new=4, map_edit_list=8, stack=3, stack_assign=4, stack_loc=3, rate=4, map_deepcopy=2,
                 convert=16, mutate_result=5, map_get_list=1, mapset_get_map=1)
    games = ["osu", "qua", "sm", "bms", "o2j"]

    def p_mapset_new(self, game=None):
        return super().p_mapset_new(game or self.r.choice(["sm", "o2j"]))

    same_time_tempo_p = 0.15

    def p_map_new(self, game=None, **kw):
        """Round 14: two tempo points on one time (stacked red lines in osu!, a point appended at a time that already has
        one) are legal sources; the later row is the one in force and a converter keeps both. The coin comes from a
        stream of its own (seeded by the tempo rows), so the sessions generated before this producer existed are unchanged
        apart from the extra row."""
        op = super().p_map_new(game, **kw)
        bp = op["lists"].get("bpms") or []
        rr = random.Random("same-time-tempo:" + repr([(b["offset"], b["bpm"]) for b in bp]))
        if len(bp) >= 2 and rr.random() < self.same_time_tempo_p:
            order = sorted(range(len(bp)), key=lambda i: bp[i]["offset"])
            i = rr.choice(order[1:])
            twin = dict(bp[i])
            twin["bpm"] = float(rr.choice([90, 150, 180, 240]))
            if twin["bpm"] == bp[i]["bpm"]:
                twin["bpm"] += 15.0
            bp.insert(i + 1, twin)
        return op


class GenC13(Gen):
    table = dict(map_new=8, mapset_new=4, map_edit_list=4, stack=2, stack_assign=2, stack_loc=2, rate=16, mutate_result=6,
                 map_deepcopy=1, mapset_get_map=1)


class GenC15(Gen):
    """Twins: same multiset of rows, different delivery order, one operation f."""

    table = dict(twin=1)
    WRITE_GAMES = {"osu": "osu", "qua": "qua", "sm": "sm", "bms": "bms"}

    def _plan(self, n):
        how = self.r.choice(["unsorted", "unsorted", "append", "reverse_sort", "concat", "canonical", "sort_then_reverse", "concat_sorted_parts"])
        perm = list(range(n))
        self.r.shuffle(perm)
        return dict(how=how, perm=perm, cuts=sorted(self.r.sample(range(1, n), min(n - 1, self.r.choice([1, 2])))) if n > 1 else [])

    def _chart(self, game, keys=None, shared_bpms=None):
        lists, meta, keys = gen_chart(self.d, game, self.hi, keys=keys, sorted_p=1.0, distinct=True)
        # chords: same time, different column (never the same (time, column))
        notes = lists["hits"] + lists["holds"]
        for n_ in notes:
            if self.d.random() < 0.25 and len(notes) > 1:
                o = self.d.choice(notes)
                if o is not n_ and not any(x is not n_ and x["offset"] == o["offset"] and x["column"] == n_["column"] for x in notes):
                    if n_["offset"] != min(x["offset"] for x in notes):
                        n_["offset"] = o["offset"]
        if shared_bpms is not None:
            lists["bpms"] = [dict(b) for b in shared_bpms]
        # SVs at pairwise distinct times
        if "svs" in lists:
            seen, keep = set(), []
            for sv in lists["svs"]:
                if sv["offset"] not in seen:
                    seen.add(sv["offset"])
                    keep.append(sv)
            lists["svs"] = keep
        for k in lists:
            lists[k] = sorted(lists[k], key=lambda x: x["offset"])
        plans = {k: self._plan(len(v)) for k, v in lists.items() if len(v) > 1}
        return dict(lists=lists, meta=meta, plans=plans), keys

    @staticmethod
    def _dominant_unique(lists) -> bool:
        notes = lists["hits"] + lists["holds"]
        bp = sorted(lists["bpms"], key=lambda b: b["offset"])
        if not notes or not bp:
            return False
        last = max(n_["offset"] for n_ in notes)
        tot = {}
        for a, b in zip(bp, bp[1:] + [dict(offset=last)]):
            tot[a["bpm"]] = tot.get(a["bpm"], 0.0) + (b["offset"] - a["offset"])
        v = sorted(tot.values(), reverse=True)
        if v[0] <= 0:
            return False
        return len(v) == 1 or (v[0] - v[1]) > 1e-6 * max(1.0, abs(v[0]))

    def p_twin(self):
        game = self.r.choice(["osu", "osu", "qua", "qua", "sm", "bms", "o2j", "base"])
        n_charts = 1 if game not in ("sm", "o2j") else (3 if game == "o2j" else self.r.choice([1, 2]))
        charts, keys, shared = [], None, None
        for _ in range(n_charts):
            c, keys = self._chart(game, keys=7 if game == "o2j" else None, shared_bpms=shared)
            if game == "sm" and shared is None:
                shared = c["lists"]["bpms"]
            charts.append(c)
        fs = ["rate", "full_ln"]
        convs = [c for c, spec in CONVERTERS.items() if spec[0] == game]
        fs += ["convert:" + c for c in convs] * (2 if convs else 0)
        analysis_ok = n_charts == 1 and game not in ("sm", "o2j") and self._dominant_unique(charts[0]["lists"])
        tie = False
        if n_charts == 1 and game not in ("sm", "o2j") and self.r.random() < 0.1:
            # an EXACT tie for the longest cumulative time (whole milliseconds: the sums are exact in any order): which tempo
            # wins is the library's business, but it may not depend on the row order
            L = charts[0]["lists"]
            notes = L["hits"] + L["holds"]
            t0, d = self.d.choice([0, 1000, -500]), self.d.choice([1000, 3000, 2500 * 2])
            A, B = self.d.sample([120.0, 180.0, 150.0, 200.0, 90.0], 2)
            base = L["bpms"][0]
            if self.d.random() < 0.5:
                pts = [(t0, A), (t0 + d, B)]
            else:
                pts = [(t0, A), (t0 + d // 2, B), (t0 + d // 2 + d, A)]
            L["bpms"] = [dict(base, offset=float(t), bpm=v) for t, v in pts]
            offs = self.d.sample(range(t0, t0 + 2 * d), min(len(notes), 2 * d))
            for n_, o in zip(notes, offs):
                n_["offset"] = float(o)
            notes[0]["offset"] = float(t0 + 2 * d)  # the last object: where the last tempo segment ends
            for k in L:
                L[k] = sorted(L[k], key=lambda x: x["offset"])
            charts[0]["plans"] = {k: self._plan(len(v)) for k, v in L.items() if len(v) > 1}
            analysis_ok = tie = len(notes) >= 2
        if game in ("sm", "o2j"):
            fs = [x for x in fs if x != "full_ln"]
        if analysis_ok:
            from .ops.algs import alg_precondition

            fake = dict(lists={k: dict(rows=v) for k, v in charts[0]["lists"].items()})
            if alg_precondition(fake):
                fs += ["dominant_bpm", "dominant_bpm", "scroll_speed", "scroll_speed"]
                if game in ("osu", "qua"):
                    fs += ["sv_normalize", "sv_normalize"]
        if game == "osu":
            fs += ["hitsound_copy", "hitsound_copy"]
        if game in self.WRITE_GAMES and self.s.knobs.get("writes", True):
            fs += ["write:" + game] * 3
        f = self.r.choice(fs)
        if tie and analysis_ok:
            f = self.r.choice([x for x in fs if x in ("dominant_bpm", "scroll_speed", "sv_normalize")] or [f])
        op = self.mk("twin.compare", game=game, charts=charts, f=f, args={})
        if game in ("sm", "o2j"):
            op["set_meta"] = gen_set_meta(self.d, game)
        if f == "rate":
            op["args"] = dict(r=self.r.choice(self.RATES))
        elif f == "full_ln":
            op["args"] = dict(gap=self.r.choice([150, 0, 50, 100.5]), thres=self.r.choice([100, 0, 50]))
        elif f in ("scroll_speed", "sv_normalize"):
            op["args"] = dict(override=self.r.choice([None, None, 150.0]))
        elif f == "hitsound_copy":
            t, _ = self._chart("osu", keys=keys)
            if self.d.random() < 0.6:
                # a target charted to the same song: its notes sit on offsets of the source (one per offset: fewer notes than
                # a source chord has sounds, so some sounds overflow)
                L = charts[0]["lists"]
                src_offs = sorted({n_["offset"] for n_ in L["hits"] + L["holds"]})
                tn = t["lists"]["hits"] + t["lists"]["holds"]
                for n_, o in zip(tn, self.d.sample(src_offs, min(len(tn), len(src_offs)))):
                    n_["offset"] = o
                keep = set()
                for k in ("hits", "holds"):
                    rows = []
                    for n_ in sorted(t["lists"][k], key=lambda x: x["offset"]):
                        if (n_["offset"], n_["column"]) not in keep:
                            keep.add((n_["offset"], n_["column"]))
                            rows.append(n_)
                    t["lists"][k] = rows
                t["plans"] = {k: self._plan(len(v)) for k, v in t["lists"].items() if len(v) > 1}
            op["args"] = dict(tgt=t, permute=self.r.choice(["source", "target"]))
        return op


# ---------------------------------------------------------------- file scenarios (C01-C07, C09)

class FileGen(Gen):
    """Sessions around the stream seams: generated files are installed and read, charts
    built through histories are written, read back and written again (generation chains),
    with per-op I/O plans (buffer size, short counts, error faults) drawn from the "io" stream."""

    game = "osu"
    max_handles = 8
    write_games = ("osu",)
    read_games = ("osu",)
    reread_prop = None
    p_api = 0.2

    def setup(self):
        self.io_r = self.s.streams["io"]
        self.n_paths = 0
        self.paths: dict[str, str] = {}  # path -> game
        self.s.last_io = None
        self._retried = set()
        if self.r.random() < 0.2:
            # the user program worked with lists of the base classes (or of another game) BEFORE it touches this format:
            # class-level state the library keeps (caches looked up through the MRO, class attributes) is then already set
            for cls in self.r.sample(["TimedList", "HitList", "HoldList", "BpmList", "OsuHitList", "QuaHitList", "BMSHitList", "SMHitList"], 3):
                a = self.new_h()
                rows = gen_rows(self.d, cls, self.d.choice([1, 2, 3]), 4, sort=True)
                self.queue.append(self.mk("list.new", cls=cls, how="items", rows=rows, out=a, keys=4))
                self.queue.append(self.mk("list.iter", h=a))
            # (the handles stay in the world: dropping is the generator's ordinary business)

    # -- helpers
    def new_path(self, game):
        from .ops.files import IO

        self.n_paths += 1
        # the session seed is part of the path: process-global state inside the library (a cache keyed by path)
        # cannot carry over from an earlier session of the same worker process
        p = f"/simfs/{self.s.seed:x}/f{self.n_paths}{IO[game].ext}"
        self.paths[p] = game
        return p

    def plan(self, direction):
        from .simfs import draw_io_plan

        return draw_io_plan(self.io_r, self.s.knobs, direction)

    def layout_for(self, game, h=None):
        return None

    def io_read_op(self, game, path, out=None, faults=True):
        op = self.mk("io.read", game=game, path=path, out=out or self.new_h(), path_type=self.s.knobs.get("path_type", "str"),
                     io=self.plan("r"))
        lay = self.layout_for(game)
        if lay is not None:
            op["layout"] = lay
        fs = self.w.fs
        if self.reread_prop and (fs is None or path not in fs.installed):
            op["prop"] = self.reread_prop  # reading back what the library wrote is the writer property's clause
        if not faults:
            op["io"]["fault"] = None
        if self.r.random() < self.p_api:
            # the other observation point of the property: X.read(lines | text | bytes), the user program read the file itself
            op["via"] = "api"
            op["raw_newlines"] = self.r.random() < 0.3
            op["io"] = dict(bufsize=8192, chunks=0, fault=None)
        return op

    def io_write_op(self, game, h, path, first=False, faults=True):
        op = self.mk("io.write", game=game, h=h, path=path, path_type=self.s.knobs.get("path_type", "str"), io=self.plan("w"))
        if first:
            op["dest"] = self.s.knobs.get("dest_state", "absent")
        if not faults:
            op["io"]["fault"] = None
        if self.r.random() < self.p_api:
            op["via"] = "api"  # x.write(): the user program stores the result itself
            op["io"] = dict(bufsize=8192, chunks=0, fault=None)
        return op

    def next_op(self):
        # H-recover: after a file op that failed because of an injected error, retry the same call with faults off
        li = self.s.last_io
        if li is not None and not self.queue and li["failed_by_fault"] and li["id"] not in self._retried:
            self._retried.add(li["id"])
            if self.r.random() < 0.7:
                import copy

                op = copy.deepcopy(li["op"])
                op["id"] = self.s.fresh_op_id()
                op["io"] = dict(op.get("io") or {}, fault=None)
                op["retry_of"] = li["id"]
                if "out" in op and op["out"] is not None:
                    op["out"] = self.new_h()
                op.pop("dest", None)
                return op
        return super().next_op()

    # -- producers
    def gen_doc(self, game):
        raise NotImplementedError

    def p_install_read(self, game=None):
        game = game or self.r.choice(self.read_games)
        path = self.new_path(game)
        doc, fmt = self.gen_doc(game)
        return [self.mk("fs.install", game=game, path=path, doc=doc, fmt=fmt), self.io_read_op(game, path)]

    def p_reinstall_read(self):
        """the file at a path the session has already read is replaced by another one, then read again"""
        ps = [p for p, g in self.paths.items() if g in self.read_games and self.w.fs is not None and p in self.w.fs.files]
        if not ps:
            return None
        path = self.r.choice(ps)
        game = self.paths[path]
        doc, fmt = self.gen_doc(game)
        rd = self.io_read_op(game, path)
        if hasattr(self, "path_layout") and getattr(self, "_layout", None):
            self.path_layout[path] = self._layout
            rd["layout"] = self._layout
        rd.pop("prop", None)
        return [self.mk("fs.install", game=game, path=path, doc=doc, fmt=fmt), rd]

    def p_mutate_read(self):
        """the caller edits a chart it got from read_file (a later read of the same file must not see the edit)"""
        hs = [h for h in self.w.h.values() if h.meta.get("read_from") and h.kind in ("map", "mapset")]
        if not hs:
            return None
        h = self.r.choice(hs)
        ops = []
        name = h.name
        obj = h.obj
        if h.kind == "mapset":
            if not obj.maps:
                return None
            i = self.r.randrange(len(obj.maps))
            name = self.new_h()
            ops.append(self.mk("mapset.get_map", h=h.name, i=i, out=name))
            obj = obj.maps[i]
        keys = [k for k, v in obj.objs.items() if len(v.df) > 0 and "offset" in v.df.columns and not v.df.isna().any().any()]
        if not keys:
            return None
        key = self.r.choice(keys)
        a = self.new_h()
        ops.append(self.mk("map.get_list", h=name, key=key, out=a))
        ops.append(self.mk("list.col_arith", h=a, col="offset", opr=self.r.choice(["+", "*"]), v=self.r.choice([1000.0, 2, 0.5])))
        return ops

    def _written_paths(self, game=None):
        fs = self.w.fs
        if fs is None:
            return []
        return [p for p, g in self.paths.items() if p in fs.files and p not in fs.tainted and (game is None or g == game)]

    def p_reread(self):
        ps = self._written_paths()
        ps = [p for p in ps if self.paths[p] in self.read_games]
        if not ps:
            return None
        p = self.r.choice(ps)
        return self.io_read_op(self.paths[p], p)

    def _writable_handles(self):
        from .ops.files import IO

        out = []
        for h in self.w.h.values():
            if h.game in self.write_games and h.kind == IO[h.game].kind:
                out.append(h)
        return out

    def p_write(self):
        hs = self._writable_handles()
        if not hs:
            return None
        h = self.r.choice(hs)
        ps = [p for p, g in self.paths.items() if g == h.game]
        if ps and self.r.random() < 0.4:
            return self.io_write_op(h.game, h.name, self.r.choice(ps))
        return self.io_write_op(h.game, h.name, self.new_path(h.game), first=True)

    def p_chain(self):
        """chart -> write -> read -> write -> ... on one path (H-gen)"""
        hs = [h for h in self._writable_handles() if h.game in self.read_games]
        if not hs:
            return None
        h = self.r.choice(hs)
        path = self.new_path(h.game)
        n = self.r.choice([2, 2, 3, 4])
        ops = [self.io_write_op(h.game, h.name, path, first=True)]
        cur = None
        for _ in range(n - 1):
            cur = self.new_h()
            ops.append(self.io_read_op(h.game, path, out=cur))
            ops.append(self.io_write_op(h.game, cur, path))
        return ops

    FLOAT_TIME_COLS = ("offset", "length", "bpm")

    def p_time_arith(self):
        """in-place arithmetic on time columns of a chart's list (keeps integral fields integral)"""
        h = self.pick("map")
        if not h:
            return None
        keys = [k for k, v in h.obj.objs.items() if len(v.df) > 0 and not v.df.isna().any().any()]
        if not keys:
            return None
        key = self.r.choice(keys)
        tl = h.obj.objs[key]
        cols = [c for c in tl.df.columns if c in ("offset", "length")]
        if not cols:
            return None
        col = self.r.choice(cols)
        opr, v = self.r.choice([("+", 0.5), ("+", 100.0), ("-", 250.25), ("*", 1.5), ("/", 3), ("+", 1000)])
        if col == "length" and opr == "-":
            opr = "+"
        a = self.new_h()
        return [self.mk("map.get_list", h=h.name, key=key, out=a), self.mk("list.col_arith", h=a, col=col, opr=opr, v=v)]

    def p_retempo_rewrite(self):
        """write, change the tempo values of the chart IN PLACE (same list objects, same frames), write again: the second
        file must denote the chart as it is now (state kept from the first write may not leak into the second)"""
        hs = self._writable_handles()
        if not hs:
            return None
        h = self.r.choice(hs)
        k = self.r.choice([2, 2, 0.5])
        ops = [self.io_write_op(h.game, h.name, self.new_path(h.game), first=True, faults=False)]
        n = len(h.obj.maps) if h.kind == "mapset" else 1
        for i in range(n):
            m = h.name
            if h.kind == "mapset":
                m = self.new_h()
                ops.append(self.mk("mapset.get_map", h=h.name, i=i, out=m))
            a = self.new_h()
            ops.append(self.mk("map.get_list", h=m, key="bpms", out=a))
            ops.append(self.mk("list.col_arith", h=a, col="bpm", opr="*", v=k))
        ops.append(self.io_write_op(h.game, h.name, self.new_path(h.game), first=True, faults=False))
        return ops

    def p_stack_time(self):
        ss = self._fresh_stackers("map")
        if not ss:
            return None
        h = self.r.choice(ss)
        cols = [c for c in self._stack_cols(h) if c in ("offset", "length")]
        if not cols:
            return None
        col = self.r.choice(cols)
        opr, v = self.r.choice([("+", 0.5), ("+", 100.0), ("*", 1.5), ("/", 3), ("+", 1000), ("*", 2)])
        return self.mk("stack.assign", h=h.name, cols=[col], opr=opr, v=v, form=self.r.choice(["aug", "pure"]))


class GenC01(FileGen):
    game = "osu"
    table = dict(install_read=10, map_new=7, write=10, reread=6, chain=6, rate=2, stack=2, stack_time=2, time_arith=2,
                 map_edit_list=2, map_deepcopy=1, reinstall_read=2, mutate_read=2)
    games = ["osu"]

    def gen_doc(self, game):
        from .gen_files import gen_osu_doc, gen_osu_fmt

        return gen_osu_doc(self.d, self.hi + 2), gen_osu_fmt(self.d, self.s.knobs)

    def p_map_new(self, game=None, **kw):
        return super().p_map_new("osu", **kw)


class GenC06(FileGen):
    game = "qua"
    write_games = ("qua",)
    read_games = ("qua",)
    table = dict(install_read=10, map_new=8, write=10, reread=6, chain=6, rate=1, stack=1, stack_time=1, time_arith=2,
                 map_edit_list=2, map_deepcopy=1, convert=8, mapset_new=2, reinstall_read=2, mutate_read=2)
    games = ["qua", "qua", "osu", "bms", "sm", "o2j"]

    def gen_doc(self, game):
        from .gen_files import gen_qua_doc, gen_qua_fmt

        return gen_qua_doc(self.d, self.hi + 2), gen_qua_fmt(self.d, self.s.knobs)

    def p_mapset_new(self, game=None):
        return super().p_mapset_new(game or self.r.choice(["sm", "o2j"]))

    def p_convert(self, conv=None):
        hs = [h for h in self.w.h.values() if h.kind in ("map", "mapset") and h.game != "qua" and self._rate_ok(h) and not h.meta.get("converted")]
        if not hs:
            return None
        h = self.r.choice(hs)
        cands = [c for c, spec in CONVERTERS.items() if spec[0] == h.game and spec[1] == h.kind and spec[2] == "qua"]
        if not cands:
            return None
        return super().p_convert(conv=self.r.choice(cands)) if False else self._convert_op(h, self.r.choice(cands))

    def _convert_op(self, h, c):
        spec = CONVERTERS[c]
        n = 1 if spec[3] in ("map", "mapset", "mapset_merged") else len(h.obj.maps)
        op = self.mk("convert", conv=c, h=h.name, outs=[self.new_h() for _ in range(n)])
        if spec[4]:
            op["shift"] = self.r.choice([None, 0, 1, 2])
            if op["shift"] is not None and self.r.random() < 0.5:
                op["shift_positional"] = True
        if spec[6] and self.r.random() < 0.4:
            op["rbm"] = self.r.choice([False, False, True])  # the non-default raise_bad_mode
        return op


class GenC02(FileGen):
    game = "sm"
    write_games = ()
    read_games = ("sm",)
    table = dict(install_read=20, reread=5, reinstall_read=4, mutate_read=3, mapset_get_map=1, map_deepcopy=1)

    def gen_doc(self, game):
        from .gen_files import gen_sm_doc, gen_sm_fmt

        return gen_sm_doc(self.d, (4 if self.tier == "quick" else 6) * self.scale), gen_sm_fmt(self.d, self.s.knobs)


class GridMixin:
    """Charts generated in beat space so that every position is representable on the snap grid."""

    def grid_chart(self, game, keys, tl, n_measures, exact, lcm_cap=None):
        from .gen_files import gen_grid_objects
        from fractions import Fraction

        slots = fields.GAMES[game]
        jitter = self.d.random() < 0.15
        kinds = ["hits", "holds"]
        if game == "sm":
            kinds += [k for k in ("rolls", "mines", "lifts", "fakes", "keysounds") if self.d.random() < 0.3]
        objs = gen_grid_objects(self.d, tl, keys, n_measures, self.hi, kinds,
                                min_gap=Fraction(1, 48) if (not exact or game == "bms") else Fraction(0), lcm_cap=lcm_cap,
                                inside=(game == "bms" and self.d.random() < 0.12))
        if not any(objs.values()):
            objs["hits"].append(dict(offset=float(tl[0][2]), column=0))
        lists = {}
        for k, rows in objs.items():
            full = []
            for row in rows:
                base = gen_row(self.d, slots[k], keys)
                base.update(row)
                if jitter and self.d.random() < 0.3 and isinstance(base.get("offset"), float):
                    # times that came through float arithmetic (t += beat) sit one ulp beside the exact value: still "on the grid"
                    import math

                    # (never below the first tempo point: a time before it has no beat)
                    up_only = base["offset"] <= float(tl[0][2])
                    base["offset"] = math.nextafter(base["offset"], math.inf if up_only else self.d.choice([-math.inf, math.inf]))
                full.append(base)
            if self.d.random() < 0.4:
                self.d.shuffle(full)
            lists[k] = full
        bp = []
        # StepMania has no time signature: a tempo point's metronome is in-memory bookkeeping and a .sm measure is 4 beats
        # whatever it says (the other writers' domains ask for 4/4)
        metro = self.d.choice([3.0, 5.0, 6.0, 7.0]) if (game == "sm" and self.d.random() < 0.15) else 4.0
        for b, v, ms in tl:
            base = gen_row(self.d, slots["bpms"], keys)
            base.update(offset=float(ms), bpm=float(v), metronome=metro if "metronome" in base else 4)
            bp.append(base)
        if game == "sm" and self.d.random() < 0.1:
            # a tempo "reset pair": another value listed on the time of a tempo point, just before it in the list - the later
            # one stays in force, so every position above is unchanged (as in charts converted from osu)
            i = self.d.randrange(len(bp))
            bp.insert(i, dict(bp[i], bpm=float(self.d.choice([v for v in (90.0, 150.0, 240.0, 333.0) if v != bp[i]["bpm"]]))))
        elif len(bp) > 1 and self.d.random() < 0.3:
            self.d.shuffle(bp)  # a tempo point appended later: rows are not in time order
        lists["bpms"] = bp
        if "svs" in slots:
            lists["svs"] = []
        return lists

    def grid_source(self, game, t0=0.0, exact=None, lcm_cap=None):
        """ops creating an on-grid chart (or mapset) of `game`"""
        from .gen_files import gen_timeline

        exact = self.d.random() < 0.65 if exact is None else exact
        nm = self.d.randint(1, (4 if self.tier == "quick" else 6) * (1 if self.scale == 1 else min(self.scale, 10)))
        tl = gen_timeline(self.d, nm, exact, t0)
        if game == "sm":
            n = self.d.choice([1, 1, 2, 3])
            names, ops = [], []
            for _ in range(n):
                keys = self.d.choice([4, 4, 7, 6, 8, 3])
                lists = self.grid_chart("sm", keys, tl, nm, exact, lcm_cap)
                meta = gen_map_meta(self.d, "sm", keys)
                nmh = self.new_h()
                names.append(nmh)
                ops.append(self.mk("map.new", game="sm", lists=lists, meta=meta, how="items", out=nmh, keys=keys))
            sm = gen_set_meta(self.d, "sm")
            sm["offset"] = float(tl[0][2])
            ops.append(self.mk("mapset.new", game="sm", maps=names, meta=sm, out=self.new_h()))
            return ops
        if game == "o2j":
            names, ops = [], []
            for _ in range(3):
                lists = self.grid_chart("o2j", 7, tl, nm, exact, lcm_cap)
                nmh = self.new_h()
                names.append(nmh)
                ops.append(self.mk("map.new", game="o2j", lists=lists, meta={}, how="items", out=nmh, keys=7))
            ops.append(self.mk("mapset.new", game="o2j", maps=names, meta=gen_set_meta(self.d, "o2j"), out=self.new_h()))
            return ops
        keys = {"osu": self.d.choice([4, 7, 3, 6, 8]), "qua": self.d.choice([4, 7, 8]), "bms": self.d.choice([4, 7, 8, 6])}[game]
        lists = self.grid_chart(game, keys, tl, nm, exact, lcm_cap)
        meta = gen_map_meta(self.d, game, keys)
        return [self.mk("map.new", game=game, lists=lists, meta=meta, how=self.d.choice(["items", "items", "items", "df", "df_extra"]), out=self.new_h(), keys=keys)]


class GenC14F(GridMixin, GenC14):
    """C14 with the writers: write() / write_file() on charts in any state, judged on the frame condition only
    (the chart given to the writer is unchanged whether the call succeeds, raises, or meets an injected error)."""

    table = dict(GenC14.table, write_any=12, grid_src=6)

    def setup(self):
        self.io_r = self.s.streams["io"]
        self.n_paths = 0

    def p_grid_src(self):
        g = self.r.choice(["sm", "bms", "bms", "osu", "qua"])
        return self.grid_source(g, t0=0.0 if g == "bms" else self.d.choice([0.0, 100.0]), exact=True if g == "bms" else None, lcm_cap=384)

    def p_write_any(self):
        from .simfs import draw_io_plan

        hs = [h for h in self.w.h.values() if (h.kind == "map" and h.game in ("osu", "qua", "bms")) or (h.kind == "mapset" and h.game == "sm")]
        if not hs:
            return None
        h = self.r.choice(hs)
        self.n_paths += 1
        ext = {"osu": ".osu", "qua": ".qua", "bms": ".bms", "sm": ".sm"}[h.game]
        op = self.mk("io.write", game=h.game, h=h.name, path=f"/simfs/{self.s.seed:x}/w{self.n_paths}{ext}", prop="C14",
                     path_type=self.s.knobs.get("path_type", "str"), io=draw_io_plan(self.io_r, self.s.knobs, "w"))
        if self.r.random() < 0.4:
            op["via"] = "api"
            op["io"] = dict(bufsize=8192, chunks=0, fault=None)
        if h.game == "bms":
            op["layout"] = self.r.choice(["BME", "PMS_BME", "BMS"])
        return op


class GenC03(GridMixin, FileGen):
    game = "sm"
    reread_prop = "C03"
    write_games = ("sm",)
    read_games = ("sm",)
    table = dict(sm_new=10, install_read=5, src_new=5, convert=8, write=12, reread=5, chain=6, rate=4, map_deepcopy=1, retempo_rewrite=4)

    def gen_doc(self, game):
        from .gen_files import gen_sm_doc, gen_sm_fmt

        return gen_sm_doc(self.d, 3 * self.scale), gen_sm_fmt(self.d, self.s.knobs)

    def p_sm_new(self):
        return self.grid_source("sm", t0=self.d.choice([0.0, 0.0, 100.0, -250.0, 1234.5]), lcm_cap=self.s.knobs.get("sm_lcm_cap"))

    def p_src_new(self):
        return self.grid_source(self.r.choice(["osu", "qua", "bms", "o2j"]), t0=0.0, lcm_cap=self.s.knobs.get("sm_lcm_cap"))

    def p_rate(self):
        h = self.pick("mapset", pred=lambda x: x.game == "sm" and self._rate_ok(x))
        if not h:
            return None
        return self.mk("map.rate", h=h.name, r=self.r.choice([0.5, 0.75, 1.5, 2, 1.25, 1.1]), out=self.new_h())

    def p_convert(self, conv=None):
        hs = [h for h in self.w.h.values() if h.kind in ("map", "mapset") and h.game != "sm" and self._rate_ok(h) and not h.meta.get("converted")]
        if not hs:
            return None
        h = self.r.choice(hs)
        cands = [c for c, spec in CONVERTERS.items() if spec[0] == h.game and spec[1] == h.kind and spec[2] == "sm"]
        if not cands:
            return None
        c = self.r.choice(cands)
        spec = CONVERTERS[c]
        n = 1 if spec[3] in ("map", "mapset", "mapset_merged") else len(h.obj.maps)
        return self.mk("convert", conv=c, h=h.name, outs=[self.new_h() for _ in range(n)])


class GenC04(FileGen):
    game = "bms"
    write_games = ()
    read_games = ("bms",)
    table = dict(install_read=20, reread=5, reinstall_read=4, mutate_read=3, map_deepcopy=1)

    def gen_doc(self, game):
        from .gen_files import gen_bms_doc, gen_bms_fmt

        doc, layout = gen_bms_doc(self.d, (5 if self.tier == "quick" else 8) * self.scale, odd_tempo_subdiv=bool(self.s.knobs.get("bms_odd_tempo_subdiv")))
        self._layout = layout
        return doc, gen_bms_fmt(self.d, self.s.knobs)

    def p_install_read(self, game=None):
        path = self.new_path("bms")
        doc, fmt = self.gen_doc("bms")
        self.path_layout = getattr(self, "path_layout", {})
        self.path_layout[path] = self._layout
        op = self.io_read_op("bms", path)
        op["layout"] = self._layout
        return [self.mk("fs.install", game="bms", path=path, doc=doc, fmt=fmt), op]

    def p_reread(self):
        ps = self._written_paths("bms")
        if not ps:
            return None
        p = self.r.choice(ps)
        op = self.io_read_op("bms", p)
        op["layout"] = getattr(self, "path_layout", {}).get(p, "BME")
        return op


class GenC05(GridMixin, FileGen):
    game = "bms"
    write_games = ("bms",)
    read_games = ("bms",)
    table = dict(bms_new=12, install_read=4, write=12, reread=4, chain=4, map_deepcopy=1, rate=2, bms_many_bpms=0.12, retempo_rewrite=3)
    LAYOUT_COLS = {"BMS": 14, "BME": 16, "PMS": 9, "PMS_BME": 18, "PMS_5B": 5}

    def setup(self):
        super().setup()
        self.path_layout = {}

    def gen_doc(self, game):
        from .gen_files import gen_bms_doc, gen_bms_fmt

        doc, layout = gen_bms_doc(self.d, 4 * self.scale)
        self._layout = layout
        return doc, gen_bms_fmt(self.d, self.s.knobs)

    def p_install_read(self, game=None):
        path = self.new_path("bms")
        doc, fmt = self.gen_doc("bms")
        self.path_layout[path] = self._layout
        op = self.io_read_op("bms", path)
        op["layout"] = self._layout
        return [self.mk("fs.install", game="bms", path=path, doc=doc, fmt=fmt), op]

    def p_bms_new(self):
        from .gen_files import gen_timeline

        layout = self.d.choice(list(self.LAYOUT_COLS))
        keys = self.d.randint(1, self.LAYOUT_COLS[layout])
        nm = self.d.randint(1, 4 if self.tier == "quick" else 6)
        tl = gen_timeline(self.d, nm, True, 0.0)
        lists = self.grid_chart("bms", keys, tl, nm, True)
        # arbitrary (off-grid) times for some objects: jitter smaller than the per-lane separation
        if self.d.random() < 0.5:
            for k in ("hits", "holds"):
                for row in lists[k]:
                    if self.d.random() < 0.4:
                        row["offset"] = max(0.0, row["offset"] + self.d.choice([0.3, -0.2, 1.7, -1.1, 0.05]))
        # samples: known ids, unknown files
        table = {b"02": b"a.wav", b"03": b"kick.ogg", b"0A": b"snare.wav"} if self.d.random() < 0.7 else {}
        for k in ("hits", "holds"):
            for row in lists[k]:
                row["sample"] = self.d.choice(list(table.values()) + [b"", b"unknown.wav"]) if table else self.d.choice([b"", b"unknown.wav"])
        meta = dict(title=self.d.choice([b"Song", "曲".encode("shift_jis"), b"A B"]), artist=b"me", version=self.d.choice([b"1", b"12"]),
                    samples_dict=table, ln_end_channel=self.d.choice([b"ZZ", b"ZZ", b"ZY"]))
        h = self.new_h()
        return self.mk("map.new", game="bms", lists=lists, meta=meta, how=self.d.choice(["items", "items", "items", "df", "df_extra"]), out=h, keys=keys, layout=layout)

    def p_bms_many_bpms(self):
        """many tempo points, one per measure, up to the last measure number the format has (999)"""
        n = self.d.choice([1000, 1000, 999, 500])
        vals = [self.d.choice([120.0, 240.0, 60.0]) for _ in range(n)]
        for i in range(1, n):
            if vals[i] == vals[i - 1]:
                vals[i] = 240.0 if vals[i - 1] != 240.0 else 120.0
        t = 0.0
        bp = []
        for v in vals:
            bp.append(dict(offset=t, bpm=v, metronome=4.0))
            t += 240000.0 / v  # one measure each: every tempo point on a measure line, exact in binary for these values
        hits = [dict(offset=bp[k]["offset"], column=self.d.randrange(5), sample=b"") for k in self.d.sample(range(n), 3)]
        meta = dict(title=b"many", artist=b"me", version=b"1", samples_dict={}, ln_end_channel=b"ZY")
        op = self.mk("map.new", game="bms", lists=dict(hits=hits, holds=[], bpms=bp), meta=meta, how="df", out=self.new_h(), keys=5, layout="PMS_5B")
        path = self.new_path("bms")
        w = self.io_write_op("bms", op["out"], path, first=True, faults=False)
        w["layout"] = "PMS_5B"
        self.path_layout[path] = "PMS_5B"
        return [op, w]

    def _layout_for_handle(self, h):
        lay = h.meta.get("layout")
        if lay:
            return lay
        mc = 0
        for k in ("hits", "holds"):
            df = h.obj.objs[k].df
            if len(df):
                mc = max(mc, int(df["column"].max()))
        ok = [l for l, n in self.LAYOUT_COLS.items() if n > mc]
        return self.r.choice(ok) if ok else "PMS_BME"

    def io_write_op(self, game, h, path, first=False, faults=True):
        op = super().io_write_op(game, h, path, first, faults)
        hd = self.w.h.get(h)
        lay = self.path_layout.get(path) or (self._layout_for_handle(hd) if hd is not None else "BME")
        if hd is not None and hd.meta.get("read_layout"):
            lay = hd.meta["read_layout"]
        self.path_layout[path] = lay
        op["layout"] = lay
        return op

    def io_read_op(self, game, path, out=None, faults=True):
        op = super().io_read_op(game, path, out, faults)
        op["layout"] = self.path_layout.get(path, "BME")
        return op

    def p_rate(self):
        h = self.pick("map", pred=lambda x: x.game == "bms" and self._rate_ok(x))
        if not h:
            return None
        return self.mk("map.rate", h=h.name, r=self.r.choice([0.5, 2, 1.5, 0.75, 1.25]), out=self.new_h())


class GenC07(FileGen):
    game = "o2j"
    write_games = ()
    read_games = ("o2j",)
    table = dict(install_read=20, reread=6, reinstall_read=4, mutate_read=4, mapset_get_map=1, map_deepcopy=1)

    def gen_doc(self, game):
        from .gen_files import gen_ojn_doc

        return gen_ojn_doc(self.d, (4 if self.tier == "quick" else 6) * self.scale), {}


class GenC09(FileGen):
    """read_file -> XToY.convert -> write_file for each of the 16 pairs; judged on the two files only."""

    game = "osu"
    write_games = ("osu", "qua", "sm", "bms")
    read_games = ("osu", "qua", "sm", "bms", "o2j")
    table = dict(pipeline=1)
    max_handles = 12
    QUA, SMK = {4, 7, 8}, {3, 4, 6, 7, 8}

    def p_pipeline(self):
        from . import gen_files as G

        conv = self.r.choice([c for c in CONVERTERS if not c.endswith(".merge")])
        sg, sk, tg, tk, has_shift, dshift, _ = CONVERTERS[conv]
        grid = tg in ("sm", "bms")  # the target has a beat grid: sources sit on it (and on whole milliseconds)
        keys_ok = {"qua": self.QUA, "sm": self.SMK, "bms": set(range(1, 9)), "osu": set(range(1, 10))}[tg]
        # first tempo point: BMS has no offset concept -> 0; otherwise the knob decides (see F-C09-sm-offset)
        t0_zero = tg == "bms" or self.s.knobs.get("pipe_t0_zero", True)
        fmt, layout = {}, None
        hi = self.hi
        if sg == "osu":
            keys = self.d.choice(sorted(keys_ok & {4, 7, 8, 3, 6, 5}))
            if grid:
                doc = G.gen_osu_pipeline_doc(self.d, keys, hi, 0 if t0_zero else self.d.choice([0, 1000, 500]))
            else:
                doc = G.gen_osu_doc(self.d, hi, keys=keys)
            fmt = G.gen_osu_fmt(self.d, self.s.knobs)
        elif sg == "qua":
            keys = self.d.choice(sorted(keys_ok & self.QUA))
            doc = G.gen_qua_pipeline_doc(self.d, keys, hi, 0 if (t0_zero or not grid) else self.d.choice([0, 1000, 500]))
            fmt = G.gen_qua_fmt(self.d, self.s.knobs)
        elif sg == "sm":
            doc = G.gen_sm_doc(self.d, 3 * self.scale, pipeline=dict(keys=keys_ok & self.SMK, offset0=t0_zero if grid else False))
            fmt = G.gen_sm_fmt(self.d, self.s.knobs)
        elif sg == "bms":
            doc, layout = G.gen_bms_doc(self.d, 4 * self.scale, pipeline=dict(keys=keys_ok & set(range(1, 9))))
            fmt = G.gen_bms_fmt(self.d, self.s.knobs)
        else:
            doc = G.gen_ojn_doc(self.d, 4 * self.scale, pipeline=dict(on=True))
        if tg == "bms":
            # BMS stores shift_jis: text the target cannot hold is outside what C09 speaks of (timeline, objects, columns)
            asc = lambda: self.d.choice(ASCII_TITLES)  # noqa: E731
            if sg == "osu":
                for f in ("title", "artist", "creator", "version"):
                    doc["meta"][f] = asc()
            elif sg == "qua":
                for f in ("Title", "Artist", "Creator", "DifficultyName"):
                    doc["meta"][f] = asc()
            elif sg == "sm":
                for f in ("TITLE", "ARTIST", "CREDIT"):
                    if f in doc["meta"]:
                        doc["meta"][f] = asc()
        if sg == "qua":
            # the line-oriented targets cannot hold a line break inside a header value: such text is outside what C09 speaks of
            for f, v in list(doc["meta"].items()):
                if isinstance(v, str) and ("\n" in v or "\r" in v):
                    doc["meta"][f] = self.d.choice(ASCII_TITLES)
        path = self.new_path(sg)
        src = self.new_h()
        rd = self.io_read_op(sg, path, out=src)
        if layout:
            rd["layout"] = layout
        n = 1
        if tk in ("maps", "mapsets"):
            n = len(doc["charts"]) if sg == "sm" else 3
        outs = [self.new_h() for _ in range(n)]
        cons = dict(keys=sorted(keys_ok), grid=grid, t0_zero=bool(t0_zero and grid))
        ops = [self.mk("fs.install", game=sg, path=path, doc=doc, fmt=fmt, constraint=cons), rd, self.mk("convert", conv=conv, h=src, outs=outs)]
        for o in outs:
            w = self.io_write_op(tg, o, self.new_path(tg), first=True)
            w["prop"] = "C09"
            if tg == "bms":
                w["layout"] = "BME"
            ops.append(w)
            if self.r.random() < 0.35:
                # the same converted chart serialised a second time (write() then write_file(), or twice to two paths):
                # every file it yields must denote the source
                w2 = self.io_write_op(tg, o, self.new_path(tg), first=True)
                w2["prop"] = "C09"
                if tg == "bms":
                    w2["layout"] = "BME"
                ops.append(w2)
        ops.append(self.mk("drop", hs=[src] + outs))
        return ops


class GenC13F(GridMixin, FileGen):
    """C13 with its file clause: 'a rate change survives a write' - rated copies (also of charts generated on the
    beat grid, so that StepMania and BMS can write them) go through write_file and the reference parse of the bytes
    must denote the RATED timeline, osu preview/sample events and StepMania offset / sample window included."""

    write_games = ("osu", "qua", "sm", "bms")
    read_games = ()
    table = dict(map_new=8, mapset_new=3, grid_src=8, map_edit_list=3, stack=2, stack_assign=2, stack_loc=2, rate=16,
                 mutate_result=5, map_deepcopy=1, mapset_get_map=1, write_rated=12, rate_dup_set=2)
    max_handles = 10

    def p_grid_src(self):
        g = self.r.choice(["sm", "sm", "bms", "osu", "qua"])
        return self.grid_source(g, t0=0.0 if g == "bms" else self.d.choice([0.0, 100.0, 1234.5]), exact=True if g == "bms" else None,
                                lcm_cap=384)

    def p_rate_dup_set(self):
        """a set that holds the SAME chart object more than once (MapSet([m, m]), as in the library's docstrings): every
        entry of the rated set is that chart rated once"""
        game = self.r.choice(["base", "base", "sm"])
        inner = self.r.choice(["base", "osu", "qua", "bms"]) if game == "base" else "sm"
        lists, meta, keys = gen_chart(self.d, inner, self.hi)
        m, st, res = self.new_h(), self.new_h(), self.new_h()
        other = None
        ops = [self.mk("map.new", game=inner, lists=lists, meta=meta, how="items", out=m, keys=keys)]
        names = [m, m] if self.r.random() < 0.6 else [m, m, m]
        if game == "base" and self.r.random() < 0.4:
            l2, m2, k2 = gen_chart(self.d, inner, self.hi)
            other = self.new_h()
            ops.append(self.mk("map.new", game=inner, lists=l2, meta=m2, how="items", out=other, keys=k2))
            names.insert(self.r.randrange(len(names) + 1), other)
        ops.append(self.mk("mapset.new", game=game, maps=names, meta=gen_set_meta(self.d, game), out=st))
        ops.append(self.mk("map.rate", h=st, r=self.r.choice([0.5, 1.25, 1.5, 2, 1.1]), out=res))
        ops.append(self.mk("drop", hs=[st, res, m] + ([other] if other else [])))
        return ops

    def p_write_rated(self):
        from .ops.files import IO

        hs = [h for h in self.w.h.values() if h.meta.get("copy_of") == "rate" and h.game in self.write_games and h.kind == IO[h.game].kind]
        if not hs:
            return None
        h = self.r.choice(hs)
        op = self.io_write_op(h.game, h.name, self.new_path(h.game), first=True)
        op["prop"] = "C13"
        if h.game == "bms":
            op["layout"] = "PMS_BME"
        return op


class GenC15G(GridMixin, GenC15):
    """adds twins built on the beat grid, so that the StepMania and BMS writers are inside their domains"""

    def p_twin(self):
        if self.r.random() < 0.75 or not self.s.knobs.get("writes", True):
            return super().p_twin()
        from .gen_files import gen_timeline

        game = self.r.choice(["sm", "bms"])
        nm = self.d.randint(1, 4)
        exact = True if game == "bms" else self.d.random() < 0.6
        t0 = 0.0 if game == "bms" else self.d.choice([0.0, 100.0, -250.0])
        tl = gen_timeline(self.d, nm, exact, t0, nb=self.d.choice([2, 3, 4]))
        charts = []
        n_charts = 1 if game == "bms" else self.d.choice([1, 2])
        for _ in range(n_charts):
            keys = self.d.choice([4, 7, 6, 8, 3]) if game == "sm" else self.d.choice([4, 7, 8])
            lists = self.grid_chart(game, keys, tl, nm, exact, lcm_cap=384)
            for k in lists:
                lists[k] = sorted(lists[k], key=lambda x: x["offset"])
            if game == "bms":
                for k in ("hits", "holds"):
                    for row in lists[k]:
                        row["sample"] = self.d.choice([b"a.wav", b"kick.ogg", b""])
                meta = dict(title=b"t", artist=b"a", version=b"1", samples_dict={b"02": b"a.wav", b"03": b"kick.ogg"}, ln_end_channel=b"ZY")
                if self.d.random() < 0.12:
                    # a sample table with one or no free id left (01..ZZ without the #LNOBJ id), and notes whose sounds are not in it
                    B36_ = "0123456789ABCDEFGHIJKLMNOPQRSTUVWXYZ"
                    ids = [(a + b).encode() for a in B36_ for b in B36_][1:]
                    free = set(self.d.sample(ids, self.d.choice([0, 1, 2]))) | {b"ZY"}
                    meta["samples_dict"] = {i: b"s" + i + b".wav" for i in ids if i not in free}
                    for k in ("hits", "holds"):
                        for row in lists[k]:
                            row["sample"] = self.d.choice([b"guest_a.wav", b"guest_b.wav", b"guest_c.wav", b"s05.wav", b"sAB.wav", b""])
            else:
                meta = gen_map_meta(self.d, "sm", keys)
            plans = {k: self._plan(len(v)) for k, v in lists.items() if len(v) > 1}
            charts.append(dict(lists=lists, meta=meta, plans=plans))
        op = self.mk("twin.compare", game=game, charts=charts, f="write:" + game, args={})
        if game == "sm":
            sm = gen_set_meta(self.d, "sm")
            sm["offset"] = float(tl[0][2])
            op["set_meta"] = sm
        else:
            op["args"] = dict(layout="PMS_BME")
        return op


class GenC08F(FileGen, GenC08):
    """C08 with 'freshly read' sources: files of all five games are installed in SimFS and read, then converted
    (the first history the property's quantifier names)."""

    read_games = ("osu", "qua", "sm", "bms", "o2j")
    write_games = ()
    table = dict(GenC08.table, install_read=7)
    p_api = 0.1

    def setup(self):
        FileGen.setup(self)
        self.path_layout = {}

    def gen_doc(self, game):
        """title / artist / creator are kept ASCII: BMS stores shift_jis and the BMS converters transliterate by design,
        which C08 does not judge (DESIGN 4.4)"""
        from . import gen_files as G

        k = self.s.knobs
        asc = lambda: self.d.choice(ASCII_TITLES)  # noqa: E731
        if game == "osu":
            doc = G.gen_osu_doc(self.d, self.hi)
            for f in ("creator", "version"):
                doc["meta"][f] = asc()
            return doc, G.gen_osu_fmt(self.d, k)
        if game == "qua":
            doc = G.gen_qua_doc(self.d, self.hi)
            for f in ("Title", "Artist", "Creator", "DifficultyName"):
                doc["meta"][f] = asc()
            return doc, G.gen_qua_fmt(self.d, k)
        if game == "sm":
            doc = G.gen_sm_doc(self.d, 3 * self.scale)
            for f in ("TITLE", "ARTIST", "CREDIT"):
                if f in doc["meta"]:
                    doc["meta"][f] = asc()
            return doc, G.gen_sm_fmt(self.d, k)
        if game == "bms":
            doc, layout = G.gen_bms_doc(self.d, 4 * self.scale)
            for h in doc["headers"]:
                if h[0] in (b"TITLE", b"ARTIST", b"GENRE", b"PLAYLEVEL"):
                    h[1] = asc().encode("ascii") if h[0] != b"PLAYLEVEL" else h[1]
            self._layout = layout
            return doc, G.gen_bms_fmt(self.d, k)
        return G.gen_ojn_doc(self.d, 4 * self.scale), {}

    def p_install_read(self, game=None):
        game = game or self.r.choice(self.read_games)
        path = self.new_path(game)
        doc, fmt = self.gen_doc(game)
        rd = self.io_read_op(game, path, faults=False)
        if game == "bms":
            rd["layout"] = self._layout
        return [self.mk("fs.install", game=game, path=path, doc=doc, fmt=fmt), rd]


SCENARIOS = {"C01": GenC01, "C02": GenC02, "C07": GenC07, "C09": GenC09, "C13": GenC13F, "C04": GenC04, "C05": GenC05, "C03": GenC03, "C06": GenC06, "C16": GenC16, "C14": GenC14F, "C12": GenC12, "C08": GenC08F, "C15": GenC15G}
