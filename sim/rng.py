"""One integer decides everything: labelled PRNG streams derived from a seed."""
from __future__ import annotations

import hashlib
import random


def derive(seed: int, *labels) -> int:
    h = hashlib.sha256(("/".join([str(seed), *map(str, labels)])).encode()).digest()
    return int.from_bytes(h[:8], "big")


class Streams:
    """random.Random instances derived from (seed, label); adding a draw in one
    stream never shifts another."""

    def __init__(self, seed: int):
        self.seed = seed
        self._s: dict[str, random.Random] = {}

    def __getitem__(self, label: str) -> random.Random:
        r = self._s.get(label)
        if r is None:
            r = self._s[label] = random.Random(derive(self.seed, label))
        return r


def session_seed(base: int, prop: str, i: int) -> int:
    return derive(base, prop, i) & 0x7FFFFFFFFFFF
