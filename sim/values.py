"""Value normalisation and comparison (DESIGN Appendix B).

Everything that enters a snapshot, a model row or a trace goes through `norm`
so that numpy scalars, NaN and containers compare and hash deterministically.
"""
from __future__ import annotations

import math
from fractions import Fraction

import numpy as np

NAN = "<NaN>"  # a token: NaN == NaN for snapshot purposes
NONE = None


def norm(v):
    """Plain-python, hashable, NaN-stable form of a cell value."""
    if v is None:
        return None
    if isinstance(v, (bool, np.bool_)):
        return bool(v)
    if isinstance(v, (int, np.integer)):
        return int(v)
    if isinstance(v, (float, np.floating)):
        f = float(v)
        if math.isnan(f):
            return NAN
        return f
    if isinstance(v, Fraction):
        return float(v)
    if isinstance(v, (bytes, np.bytes_)):
        return bytes(v)
    if isinstance(v, str):
        return str(v)
    if isinstance(v, (list, tuple)):
        return tuple(norm(x) for x in v)
    if isinstance(v, np.ndarray):
        return tuple(norm(x) for x in v.tolist())
    if isinstance(v, dict):
        return tuple(sorted(((norm(k), norm(x)) for k, x in v.items()), key=repr))
    if v is getattr(__import__("pandas"), "NA", object()):
        return NAN
    try:
        import pandas as pd

        if v is pd.NaT:
            return NAN
    except Exception:  # pragma: no cover
        pass
    return ("<obj>", type(v).__name__, repr(v))


def is_num(v) -> bool:
    return isinstance(v, (int, float)) and not isinstance(v, bool) or isinstance(v, bool)


def eqv(a, b) -> bool:
    """Equality *by value* on normalised values: 1 == 1.0 == True, NaN == NaN,
    bytes only equal bytes, containers element-wise."""
    if a is NAN or b is NAN:
        return a is b or (a == NAN and b == NAN)
    if isinstance(a, tuple) and isinstance(b, tuple):
        return len(a) == len(b) and all(eqv(x, y) for x, y in zip(a, b))
    if isinstance(a, (bool, int, float)) and isinstance(b, (bool, int, float)):
        return a == b
    if type(a) is not type(b):
        return False
    return a == b


def close(a, b, rel=1e-9, abs_=1e-9) -> bool:
    """Two float routes to the same real number."""
    if a is NAN or b is NAN:
        return eqv(a, b)
    if isinstance(a, (bool, int, float)) and isinstance(b, (bool, int, float)):
        if a == b:
            return True
        if math.isinf(a) or math.isinf(b):
            return False
        return abs(a - b) <= abs_ + rel * max(abs(a), abs(b))
    return eqv(a, b)


def jsonable(v):
    """Encode normalised values (bytes, tuples, NaN) for JSON replay files."""
    if isinstance(v, bytes):
        return {"__b__": v.hex()}
    if isinstance(v, tuple):
        return {"__t__": [jsonable(x) for x in v]}
    if isinstance(v, list):
        return [jsonable(x) for x in v]
    if isinstance(v, dict):
        if all(isinstance(k, str) for k in v) and not any(k.startswith("__") and k.endswith("__") for k in v):
            return {k: jsonable(x) for k, x in v.items()}
        return {"__d__": [[jsonable(k), jsonable(x)] for k, x in v.items()]}
    if isinstance(v, float):
        if math.isnan(v):
            return {"__f__": "nan"}
        if math.isinf(v):
            return {"__f__": "inf" if v > 0 else "-inf"}
        return v
    if isinstance(v, Fraction):
        return {"__q__": [v.numerator, v.denominator]}
    return v


def unjson(v):
    if isinstance(v, dict):
        if "__b__" in v and len(v) == 1:
            return bytes.fromhex(v["__b__"])
        if "__t__" in v and len(v) == 1:
            return tuple(unjson(x) for x in v["__t__"])
        if "__f__" in v and len(v) == 1:
            return float(v["__f__"])
        if "__q__" in v and len(v) == 1:
            return Fraction(v["__q__"][0], v["__q__"][1])
        if "__d__" in v and len(v) == 1:
            return {unjson(k): unjson(x) for k, x in v["__d__"]}
        return {k: unjson(x) for k, x in v.items()}
    if isinstance(v, list):
        return [unjson(x) for x in v]
    return v
