"""Running, replaying and minimising one session."""
from __future__ import annotations

import copy
import json
import os

from .engine import Session, HarnessError, Violation
from .rng import Streams
from .values import jsonable, unjson

TIER_OPS = {"quick": 12, "thorough": 30}


def default_knobs(prop: str, streams: Streams, tier: str) -> dict:
    from .simfs import draw_knobs

    return draw_knobs(streams["knobs"], prop, tier)


def generate_and_run(prop: str, seed: int, tier: str, max_ops: int | None = None, knobs: dict | None = None) -> Session:
    from .scenarios import SCENARIOS

    streams = Streams(seed)
    kn = default_knobs(prop, streams, tier) if knobs is None else knobs
    sess = Session(seed, prop, kn)
    sess.streams = streams
    gen = SCENARIOS[prop](sess, streams, tier)
    n = max_ops or TIER_OPS[tier]
    n = streams["ops"].randint(max(3, n // 2), n)
    while sess.step < n or gen.queue:
        op = gen.next_op()
        if op is None:
            break
        vs = sess.exec_op(op)
        if any(v.prop == prop for v in vs):
            break
        if sess.step > 4 * n:
            break
    if hasattr(gen, "finish"):
        gen.finish()
    return sess


def replay_ops(prop: str, seed: int, ops: list[dict], knobs: dict, stop_at_class=None) -> Session:
    sess = Session(seed, prop, knobs)
    sess.streams = Streams(seed)
    for op in ops:
        vs = sess.exec_op(copy.deepcopy(op))
        if stop_at_class is not None and any(_match(v, stop_at_class) for v in vs):
            break
        if stop_at_class is None and any(v.prop == prop for v in vs):
            break
    return sess


# ---------------------------------------------------------------- minimisation (ddmin)

def _match(v, klass) -> bool:
    klass = tuple(klass)
    return v.klass4() == klass if len(klass) == 4 else v.klass() == klass


def _fails_here(prop, seed, ops, knobs, klass) -> bool:
    try:
        s = replay_ops(prop, seed, ops, knobs, stop_at_class=klass)
    except HarnessError:
        return False
    except RecursionError:
        return False
    return any(_match(v, klass) for v in s.violations)


def _fails(prop, seed, ops, knobs, klass) -> bool:
    """Does this candidate still show the violation class?  Evaluated in a forked child, so that process-global
    state inside the library (a cache, a class attribute) left behind by one candidate cannot leak into the next:
    the answer is the one a fresh run of the candidate gives."""
    if os.environ.get("VERIF_NO_FORK"):
        return _fails_here(prop, seed, ops, knobs, klass)
    pid = os.fork()
    if pid == 0:
        code = 3
        try:
            code = 17 if _fails_here(prop, seed, ops, knobs, klass) else 0
        except BaseException:  # noqa
            code = 3
        finally:
            os._exit(code)
    _, status = os.waitpid(pid, 0)
    return os.WIFEXITED(status) and os.WEXITSTATUS(status) == 17


def _referenced(ops) -> list[dict]:
    """Drop ops that reference handles nobody creates (they would be skipped)."""
    return ops


def ddmin(prop, seed, ops, knobs, klass, budget=300):
    n = 2
    cur = list(ops)
    runs = 0
    while len(cur) >= 2 and runs < budget:
        chunk = max(1, len(cur) // n)
        subsets = [cur[i:i + chunk] for i in range(0, len(cur), chunk)]
        reduced = False
        for i in range(len(subsets)):
            comp = [op for j, s in enumerate(subsets) if j != i for op in s]
            runs += 1
            if comp and _fails(prop, seed, comp, knobs, klass):
                cur = comp
                n = max(n - 1, 2)
                reduced = True
                break
            if runs >= budget:
                break
        if not reduced:
            if n >= len(cur):
                break
            n = min(len(cur), n * 2)
    return cur, runs


SHRINK_SKIP_KEYS = {"id", "op", "h", "x", "out", "outs", "hs", "maps", "src", "tgt", "path", "game", "io", "knobs", "conv", "cls", "how",
                    "fmt", "path_type", "layout", "key", "retry_of", "prop", "constraint"}


def _candidates(v, path=()):
    """Structural simplifications of an op argument: (path, action) pairs.
    action: ('del', i) on lists, ('delkey', k) on dicts named meta, ('zero', None) on note-row strings."""
    if isinstance(v, list):
        for i in range(len(v) - 1, -1, -1):
            yield path, ("del", i)
        for i, x in enumerate(v):
            yield from _candidates(x, path + (i,))
    elif isinstance(v, dict):
        for k, x in v.items():
            if path == () and k in SHRINK_SKIP_KEYS:
                continue
            if path and path[-1] == "meta":
                yield path, ("delkey", k)
            yield from _candidates(x, path + (k,))
    elif isinstance(v, str) and path and len(v) >= 3 and set(v) <= set("01234MLFK") and set(v) != {"0"}:
        yield path, ("zero", None)


def _apply(op, path, action):
    cur = op
    for k in path[:-1] if action[0] == "zero" else path:
        cur = cur[k]
    if action[0] == "del":
        if not isinstance(cur, list) or action[1] >= len(cur):
            return False
        del cur[action[1]]
    elif action[0] == "delkey":
        if action[1] not in cur:
            return False
        del cur[action[1]]
    else:
        k = path[-1]
        cur[k] = "0" * len(cur[k])
    return True


def _shrink_rows(prop, seed, ops, knobs, klass, budget):
    """Structural shrinking of op arguments (rows of constructed lists, charts / measures / rows /
    tempo entries / header keys of generated files), greedy, to a fixed point or the budget."""
    runs = 0
    changed = True
    while changed and runs < budget:
        changed = False
        for oi in range(len(ops)):
            if ops[oi]["op"] not in ("list.new", "map.new", "fs.install", "twin.compare", "mapset.new"):
                continue
            progress = True
            while progress and runs < budget:
                progress = False
                for path, action in list(_candidates(ops[oi])):
                    if runs >= budget:
                        break
                    cand = copy.deepcopy(ops)
                    try:
                        if not _apply(cand[oi], path, action):
                            continue
                    except (KeyError, IndexError, TypeError):
                        continue
                    runs += 1
                    if _fails(prop, seed, cand, knobs, klass):
                        ops = cand
                        changed = progress = True
                        break
    return ops, runs


def _simplify_knobs(prop, seed, ops, knobs, klass):
    from .simfs import SIMPLE_KNOBS

    kn = dict(knobs)
    for k, v in SIMPLE_KNOBS.items():
        if k in kn and kn[k] != v:
            cand = dict(kn)
            cand[k] = v
            if _fails(prop, seed, ops, cand, klass):
                kn = cand
    # per-op io plans
    for oi, op in enumerate(ops):
        if "io" in op:
            for field_, simple in (("fault", None), ("chunks", 0), ("bufsize", 8192)):
                if op["io"].get(field_) != simple:
                    cand = copy.deepcopy(ops)
                    cand[oi]["io"][field_] = simple
                    if _fails(prop, seed, cand, kn, klass):
                        ops = cand
    return ops, kn


def minimise(prop, seed, ops, knobs, klass, budget=300):
    ops = copy.deepcopy(ops)
    total = 0
    if not _fails(prop, seed, ops, knobs, klass):
        return None, knobs, 0
    for _ in range(3):
        before = (len(ops), json.dumps(jsonable(ops), sort_keys=True, default=str))
        ops, r = ddmin(prop, seed, ops, knobs, klass, budget=max(20, budget - total))
        total += r
        ops, knobs = _simplify_knobs(prop, seed, ops, knobs, klass)
        ops, r = _shrink_rows(prop, seed, ops, knobs, klass, budget=max(10, (budget - total) // 2))
        total += r
        after = (len(ops), json.dumps(jsonable(ops), sort_keys=True, default=str))
        if after == before or total >= budget:
            break
    return ops, knobs, total


# ---------------------------------------------------------------- replay files

def write_replay(path, prop, seed, tier, knobs, ops, violation: Violation, digest, minimised_from):
    os.makedirs(os.path.dirname(path), exist_ok=True)
    doc = dict(property=prop, seed=seed, tier=tier, knobs=jsonable(knobs), ops=jsonable(ops),
               violation=violation.to_json(), trace_digest=digest, minimised_from_ops=minimised_from)
    with open(path, "w") as f:
        json.dump(doc, f, indent=1)  # key order is data: never sort
    return path


def load_replay(path):
    with open(path) as f:
        doc = json.load(f)
    doc["ops"] = unjson(doc["ops"])
    doc["knobs"] = unjson(doc["knobs"])
    return doc
