"""Biased value pools and row generators (DESIGN §4.11)."""
from __future__ import annotations

import random

from . import fields

OFFSETS = [0.0, 1.0, -1.0, 100.0, 250.0, 500.0, 1000.0, 1500.0, 2000.0, 333.25, 0.5, -250.5, 1e6, 12345.75, 7.0, 60000.0]
LENGTHS = [0.0, 1.0, 50.0, 100.0, 250.0, 500.0, 1000.0, 0.5, 333.25, 2000.0]
BPMS = [60.0, 90.0, 100.0, 120.0, 150.0, 173.5, 180.0, 200.0, 240.0, 87.25, 300.0, 30.0]
MULTS = [1.0, 0.5, 2.0, 1.25, 0.1, 10.0, -1.0, 0.75, 3.0]
STRS = ["", "a.wav", "hit.ogg", "clap1.wav", "x y.wav", "s.wav"]
BYTES = [b"", b"a.wav", b"kick.ogg", b"snare.wav", b"01"]
KEYSOUNDS = [[], [], [], ["a"], ["a", "b"],
             # the format's own shape: records with a sample index and a volume (any number: the game clamps, a file need not)
             [{"Sample": 1, "Volume": 100}], [{"Sample": 2, "Volume": 100.5}, {"Sample": 3, "Volume": 150}], [{"Sample": 1, "Volume": -5}]]


def pick_offset(r: random.Random, present=()):
    if present and r.random() < 0.3:
        return float(r.choice(list(present)))
    x = r.random()
    if x < 0.6:
        return float(r.choice(OFFSETS))
    if x < 0.8:
        return float(r.randint(-2000, 20000))
    if x < 0.95:
        return round(r.uniform(-1000, 10000), 3)
    return float(r.choice([1e7, 5e6, -1e4]))


def gen_field(r: random.Random, name: str, keys: int = 4, present=()):
    if name == "offset":
        return pick_offset(r, present)
    if name == "column":
        return r.randrange(max(keys, 1))
    if name == "length":
        return float(r.choice(LENGTHS)) if r.random() < 0.7 else round(r.uniform(0, 3000), 2)
    if name == "bpm":
        return float(r.choice(BPMS)) if r.random() < 0.8 else round(r.uniform(20, 400), 3)
    if name == "metronome":
        return 4.0
    if name == "multiplier":
        return float(r.choice(MULTS)) if r.random() < 0.8 else round(r.uniform(0.05, 8), 3)
    if name == "hitsound_set":
        return r.choice([0, 0, 0, 2, 4, 8, 6, 10, 12, 14, 15])
    if name in ("sample_set", "addition_set"):
        return r.randrange(4)
    if name == "custom_set":
        return r.choice([0, 0, 1, 2])
    if name == "sample_set_index":
        return r.choice([0, 0, 1, 2])
    if name == "volume":
        return r.choice([0, 10, 30, 50, 70, 100])
    if name == "pan":
        return r.choice([0, 8, 8, 15, 4])
    if name == "hitsound_file":
        return r.choice(STRS)
    if name == "sample_file":
        return r.choice(STRS[1:])
    if name == "kiai":
        return r.random() < 0.3
    if name == "keysounds":
        import copy

        return copy.deepcopy(r.choice(KEYSOUNDS))  # records are mutable: never hand out the pool's own objects
    if name == "sample":
        return r.choice(BYTES)
    raise KeyError(name)


def gen_row(r: random.Random, cls: str, keys: int = 4, present=()) -> dict:
    return {f: gen_field(r, f, keys, present) for f in fields.declared(cls)}


def gen_rows(r: random.Random, cls: str, n: int, keys: int = 4, present=(), sort=False, distinct_offsets=False) -> list[dict]:
    rows = []
    seen = set(present)
    for _ in range(n):
        row = gen_row(r, cls, keys, seen)
        if distinct_offsets:
            tries = 0
            while row["offset"] in seen and tries < 20:
                row["offset"] = pick_offset(r)
                tries += 1
            if row["offset"] in seen:
                row["offset"] = float(max(seen) + 1 + len(rows))
        seen.add(row["offset"])
        rows.append(row)
    if sort:
        rows.sort(key=lambda x: x["offset"])
    return rows


CORE_FIELDS = {"offset", "column", "length", "bpm", "multiplier"}


def size(r: random.Random, hi: int) -> int:
    """Sizes biased to small, including 0 and 1."""
    x = r.random()
    if x < 0.08:
        return 0
    if x < 0.2:
        return 1
    if x < 0.6:
        return r.randint(2, max(2, min(4, hi)))
    return r.randint(2, max(2, hi))
