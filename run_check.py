#!/venv/bin/python
"""CLI of the deterministic session simulator.

  ./check C12 --tier quick          run the check for one property
  ./check --replay FILE [--json]    replay a replay file
  ./check C12 --seed N --one I      run (and print) one session

Exit codes: 0 held (known findings printed), 1 VIOLATION, 2 harness error."""
from __future__ import annotations

import argparse
import json
import os
import sys
import time

HERE = os.path.dirname(os.path.realpath(__file__))


def _reexec():
    if os.environ.get("PYTHONHASHSEED") != "0" and not os.environ.get("VERIF_NO_REEXEC"):
        env = dict(os.environ, PYTHONHASHSEED="0")
        os.execve(sys.executable, [sys.executable, os.path.realpath(__file__), *sys.argv[1:]], env)


def main():
    _reexec()
    sys.path.insert(0, HERE)
    repo = os.environ.get("VERIF_REPO", "/repo")
    if repo not in sys.path:
        sys.path.insert(0, repo)
    import warnings

    warnings.filterwarnings("ignore")
    import logging

    logging.disable(logging.CRITICAL)

    ap = argparse.ArgumentParser()
    ap.add_argument("prop", nargs="?")
    ap.add_argument("--tier", default=os.environ.get("VERIF_TIER", "quick"))
    ap.add_argument("--seed", type=int, default=None)
    ap.add_argument("--sessions", type=int, default=None)
    ap.add_argument("--jobs", type=int, default=None)
    ap.add_argument("--replay")
    ap.add_argument("--json", action="store_true")
    ap.add_argument("--one", type=int, default=None, help="run only session index I and print its trace")
    ap.add_argument("--no-evidence", action="store_true")
    ap.add_argument("--digests", type=int, default=None, help="print the trace digests of sessions 0..N-1 (determinism self-test)")
    a = ap.parse_args()

    from sim import session as S
    from sim.engine import HarnessError

    if a.replay:
        return do_replay(a)

    if not a.prop:
        ap.error("property id required")
    prop = a.prop
    tier = a.tier if a.tier in ("quick", "thorough") else "quick"
    from sim import runner as R
    from sim.scenarios import SCENARIOS

    if prop not in SCENARIOS:
        print(f"HARNESS-ERROR: no scenario for {prop}")
        return 2
    seed = a.seed if a.seed is not None else int(os.environ.get("VERIF_SEED", R.DEFAULT_SEED))
    n = a.sessions or int(os.environ.get("VERIF_SESSIONS", 0)) or R.SESSIONS[tier][prop]
    jobs = a.jobs or int(os.environ.get("VERIF_JOBS", 0)) or min(16, os.cpu_count() or 1)

    if a.digests is not None:
        batch = R.run_batch(prop, tier, seed, a.digests, jobs)
        print(json.dumps({str(r["i"]): r.get("digest", "HARNESS-ERROR") for r in batch["recs"]}))
        return 0

    if a.one is not None:
        from sim.rng import session_seed
        from sim.values import jsonable

        s = session_seed(seed, prop, a.one)
        sess = S.generate_and_run(prop, s, tier)
        print(json.dumps(dict(seed=s, digest=sess.trace_digest(), steps=sess.step, ops=jsonable(sess.oplog),
                              violations=[v.to_json() for v in sess.violations], probes=sess.probes), indent=1, default=str))
        return 0

    t0 = time.time()
    try:
        print(f"check {prop} tier={tier} VERIF_SEED={seed} sessions={n} jobs={jobs}", flush=True)
        known_lines, regress = R.replay_known_witnesses(prop)
        for ln in known_lines:
            print(ln, flush=True)
        batch = R.run_batch(prop, tier, seed, n, jobs)
        recs = batch["recs"]
        herr = [r for r in recs if "harness_error" in r]
        if herr:
            print(f"HARNESS-ERROR: {len(herr)} sessions failed inside the harness; first (seed {herr[0]['seed']}):")
            print(herr[0]["harness_error"])
            return 2
        tri = R.triage(prop, tier, seed, recs, jobs)
        wall = time.time() - t0
        from sim.evidence import write_evidence

        viol = tri["reported"] + [dict(path=r["path"], klass=None, sessions=1, v=r["v"], n_ops=0, regression_of=r["id"]) for r in regress]
        if not a.no_evidence:
            write_evidence(prop, tier, seed, recs, tri, batch, wall, known_lines, viol)
        if tri["unreproducible"]:
            print("HARNESS-NONDETERMINISM: a violation did not reproduce:", json.dumps(tri["unreproducible"], default=str)[:3000])
            return 2
        for k, c in sorted(tri["known_hits"].items()):
            print(f"known finding {k} hit by {c} explored sessions (not reported again)")
        if viol:
            for v in viol:
                print(f"VIOLATION property={prop} replay={v['path']}")
                print(f"  {v['v']['invariant']} at op {v['v']['op']}: {v['v']['message'][:600]}")
            return 1
        print(f"OK {prop}: {len(recs)} sessions, {sum(r['steps'] for r in recs)} steps, {wall:.1f}s")
        return 0
    except HarnessError as e:
        print("HARNESS-ERROR:", str(e)[:4000])
        return 2


def do_replay(a):
    from sim import session as S
    from sim.engine import HarnessError

    doc = S.load_replay(a.replay)
    prop = doc["property"]
    klass = (doc["violation"]["property"], doc["violation"]["invariant"], doc["violation"]["op"])
    try:
        sess = S.replay_ops(prop, doc["seed"], doc["ops"], doc["knobs"], stop_at_class=klass)
    except HarnessError as e:
        if a.json:
            print(json.dumps(dict(reproduced=False, error=str(e)[:2000])))
        else:
            print("HARNESS-ERROR:", e)
        return 2
    hit = [v for v in sess.violations if v.klass() == klass]
    if a.json:
        print(json.dumps(dict(reproduced=bool(hit), digest=sess.trace_digest(), violation=hit[0].to_json() if hit else None)))
        return 1 if hit else 0
    if hit:
        print(f"VIOLATION property={prop} replay={os.path.abspath(a.replay)}")
        print(f"  {hit[0].inv} at step {hit[0].step} ({hit[0].op}): {hit[0].msg}")
        print(f"  trace digest {sess.trace_digest()} (recorded {doc.get('trace_digest')})")
        return 1
    print(f"replay of {a.replay}: no violation of class {klass}; digest {sess.trace_digest()}")
    return 0


if __name__ == "__main__":
    sys.exit(main())
