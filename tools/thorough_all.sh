#!/bin/sh
# tools/thorough_all.sh: every thorough check once (no evidence), with timing
cd "$(dirname "$0")/.." || exit 2
# against a frozen detached worktree of /repo's HEAD (see tools/soak.sh)
W=/var/tmp/thor_repo_$$
git -C /repo worktree add --detach -q "$W" HEAD || exit 2
trap 'git -C /repo worktree remove --force "$W" >/dev/null 2>&1; git -C /repo worktree prune' EXIT INT TERM
export VERIF_REPO="$W"
for p in C16 C14 C12 C08 C13 C01 C06 C02 C04 C07 C09 C03 C05 C15; do
  s=$(date +%s); out=$(./check "$p" --tier thorough --no-evidence 2>&1); st=$?; e=$(date +%s)
  echo "thorough $p exit=$st $((e-s))s $(echo "$out" | tail -1 | cut -c1-200)"
  if [ $st -ne 0 ]; then echo "$out" | tail -8 | cut -c1-500; fi
done
