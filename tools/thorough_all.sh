#!/bin/sh
# tools/thorough_all.sh: every thorough check once (no evidence), with timing
cd "$(dirname "$0")/.." || exit 2
for p in C16 C14 C12 C08 C13 C01 C06 C02 C04 C07 C09 C03 C05 C15; do
  s=$(date +%s); out=$(./check "$p" --tier thorough --no-evidence 2>&1); st=$?; e=$(date +%s)
  echo "thorough $p exit=$st $((e-s))s $(echo "$out" | tail -1 | cut -c1-200)"
  if [ $st -ne 0 ]; then echo "$out" | tail -8 | cut -c1-500; fi
done
