#!/bin/sh
# tools/sensitivity.sh: every kept seeded change must make the check of the property it breaks report a VIOLATION
# (quick tier).  Prints one line per change; exit 1 if any is missed.
cd "$(dirname "$0")/.." || exit 2
rc=0
for d in seeded/C*; do
  name=$(basename "$d"); prop=$(echo "$name" | cut -c1-3)
  out=$(tools/run_seeded.sh "$name" "$prop" 2>&1)
  if echo "$out" | grep -q "^VIOLATION property=$prop"; then echo "caught  $name  by $prop: $(echo "$out" | grep -A1 '^VIOLATION' | sed -n 2p | cut -c1-140)"
  else echo "MISSED  $name  by $prop: $(echo "$out" | tail -1 | cut -c1-200)"; rc=1; fi
done
exit $rc
