#!/bin/sh
# Run the pinned baseline suite on a scratch worktree of /repo HEAD (guard off).
set -e
D=/var/tmp/verif-baseline-$$
git -C /repo worktree add --detach -q "$D" HEAD
trap 'git -C /repo worktree remove --force "$D" >/dev/null 2>&1 || rm -rf "$D"' EXIT
cd "$D"
env -u REAMBERPY_VERIF /venv/bin/python -m pytest -ra -q -p no:cacheprovider --timeout=900 --continue-on-collection-errors "$@" 2>&1 | tail -8
