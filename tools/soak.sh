#!/bin/sh
# tools/soak.sh <sessions> <seed-from> <seed-to> [props...]: look for false alarms under many base seeds
N=$1; A=$2; B=$3; shift 3
PROPS="${*:-C08 C12 C13 C14 C16}"
cd "$(dirname "$0")/.." || exit 2
rc=0
for s in $(seq "$A" "$B"); do
  for p in $PROPS; do
    out=$(./check "$p" --seed "$s" --sessions "$N" --no-evidence 2>&1)
    st=$?
    echo "seed=$s $p exit=$st $(echo "$out" | tail -1)"
    if [ $st -ne 0 ]; then echo "$out" | tail -12; rc=1; fi
  done
done
exit $rc
