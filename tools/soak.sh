#!/bin/sh
# tools/soak.sh <sessions> <seed-from> <seed-to> [props...]: look for false alarms under many base seeds.
# Runs against a frozen detached worktree of /repo's HEAD (under /var/tmp, removed at the end), so that fix: commits made in
# /repo while a long soak is running do not put the snapshot's reference code out of step with the library.
N=$1; A=$2; B=$3; shift 3
PROPS="${*:-C08 C12 C13 C14 C16}"
cd "$(dirname "$0")/.." || exit 2
W=/var/tmp/soak_repo_$$
git -C /repo worktree add --detach -q "$W" HEAD || exit 2
trap 'git -C /repo worktree remove --force "$W" >/dev/null 2>&1; git -C /repo worktree prune' EXIT INT TERM
echo "soak against /repo $(git -C "$W" rev-parse --short HEAD) frozen at $W"
rc=0
for s in $(seq "$A" "$B"); do
  for p in $PROPS; do
    out=$(VERIF_REPO="$W" ./check "$p" --seed "$s" --sessions "$N" --no-evidence 2>&1)
    st=$?
    echo "seed=$s $p exit=$st $(echo "$out" | tail -1)"
    if [ $st -ne 0 ]; then echo "$out" | tail -12; rc=1; fi
  done
done
exit $rc
