#!/venv/bin/python
"""tools/add_finding.py <replay.json> <witness-name> <F-id> <known|fixed> <commit|-> <what...>
Copies a minimised replay to findings/ and lists it in known_findings.json."""
import json, os, shutil, sys
HERE = os.path.dirname(os.path.dirname(os.path.realpath(__file__)))
rp, name, fid, status, commit = sys.argv[1:6]
what = " ".join(sys.argv[6:])
doc = json.load(open(rp))
prop = doc["property"]
dst = os.path.join(HERE, "findings", name + ".json")
shutil.copy(rp, dst)
kf = json.load(open(os.path.join(HERE, "known_findings.json")))
kf["findings"] = [f for f in kf["findings"] if f["id"] != fid]
e = dict(id=fid, property=prop, status=status)
if commit != "-":
    e["commit"] = commit
e["what"] = what
e["witness"] = "findings/" + name + ".json"
if status == "fixed":
    e["line"] = f"fixed: property={prop} {commit} {what}"
else:
    e["match"] = dict(invariant=doc["violation"]["invariant"], op=doc["violation"]["op"], features=[])
    e["line"] = f"KNOWN-FINDING: property={prop} {fid}: {what}"
kf["findings"].append(e)
json.dump(kf, open(os.path.join(HERE, "known_findings.json"), "w"), indent=1)
print("recorded", fid, "->", dst)
