#!/venv/bin/python
"""Self-tests of the simulator itself.

  tools/selftest.py determinism [N] [props...]   same seed => same trace digest, across PYTHONHASHSEED
                                                  values, fresh interpreters and worker counts
"""
import json, os, subprocess, sys
HERE = os.path.dirname(os.path.dirname(os.path.realpath(__file__)))


def digests(prop, n, hashseed, jobs, seed=None):
    env = dict(os.environ, PYTHONHASHSEED=str(hashseed), VERIF_NO_REEXEC="1")
    cmd = [sys.executable, os.path.join(HERE, "run_check.py"), prop, "--digests", str(n), "--jobs", str(jobs)]
    if seed is not None:
        cmd += ["--seed", str(seed)]
    p = subprocess.run(cmd, capture_output=True, text=True, env=env, cwd=HERE, timeout=3600)
    for line in p.stdout.splitlines():
        if line.startswith("{"):
            return json.loads(line)
    raise SystemExit(f"no digests from {cmd}: {p.stdout[-500:]} {p.stderr[-1500:]}")


def determinism(n, props):
    bad = 0
    for prop in props:
        a = digests(prop, n, 0, 16)
        b = digests(prop, n, 1, 1 if n <= 400 else 4)
        c = digests(prop, n, 4242, 16)
        d = digests(prop, n, 0, 7)
        diff = [i for i in a if not (a[i] == b.get(i) == c.get(i) == d.get(i))]
        herr = [i for i in a if a[i] == "HARNESS-ERROR"]
        print(f"{prop}: {n} sessions x 4 configurations (PYTHONHASHSEED 0/1/4242, workers 16/1-4/16/7): "
              f"{len(diff)} digests differ, {len(herr)} harness errors")
        if diff:
            print("  first differing sessions:", diff[:10])
        bad += len(diff) + len(herr)
    return 1 if bad else 0


if __name__ == "__main__":
    what = sys.argv[1] if len(sys.argv) > 1 else "determinism"
    if what == "determinism":
        n = int(sys.argv[2]) if len(sys.argv) > 2 else 200
        sys.path.insert(0, HERE)
        props = sys.argv[3:]
        if not props:
            from sim.scenarios import SCENARIOS
            props = sorted(SCENARIOS)
        sys.exit(determinism(n, props))
