#!/venv/bin/python
"""Writes MANIFEST.json from one table, so it stays valid and consistent."""
import json, os
HERE = os.path.dirname(os.path.dirname(os.path.realpath(__file__)))

TB = ("Trusted base: the executable reference model and format interpreters under /verif/sim (hand-written field table, plain-row "
      "list/stack/convert/rate model, ref/{osu,sm,bms,qua,ojn}.py), CPython, pandas/numpy/PyYAML as installed. Sampling: a clean "
      "batch is evidence about the explored sessions, not a proof.")

FILE_TECH = "session simulation at the stream seams: generated files and history-made charts through read_file/write_file on a simulated file system (real io/codecs layers over a stub device: tiny buffers, short counts, platform defaults, stale destination, EIO/ENOSPC/close errors placed inside the op, EACCES at open, retry after failure), judged by an independent reference interpreter of the format; write/read generation chains"
CLAIMED = {
 "C09": (FILE_TECH + "; two seams composed",
         "For each of the 16 source->target pairs a generated source file (osu, Quaver, StepMania, BMS, O2Jam; inside the domains of C01/C02/C04/C06/C07; key counts the target supports; on whole milliseconds and on the beat grid when the target has one) is installed, read, converted and written, with independent I/O plans on the read and the write seam (tiny buffers, short counts, platform defaults, stale target, injected errors). The oracle consults only the two reference interpretations - source bytes and target bytes: the target must be valid in its format and its objects, columns (plus the documented column shift) and tempo timeline must equal the source's within the coarser of the two formats' resolutions (1 ms osu/Quaver, 1/96 beat StepMania, 1/192 beat BMS).", "§5 C09"),
 "C07": (FILE_TECH,
         "Generated OJN byte strings (300-byte header; three difficulties; note packages on all seven columns with 1..192 slots; long notes spanning packages and measures; 0..6 tempo events at any measure position, also after the last note; auto-play channels that are not notes; empty difficulties) are installed and read through short binary reads, several files per session (the reader threads a long-note buffer through the levels). Every note, long-note end and tempo change must sit at the millisecond position of exact rational integration over the header tempo and all tempo events before it, in the right column, heads paired with tails, and the header fields must be decoded as laid out; injected read errors may only make the call raise.", "§5 C07"),
 "C04": (FILE_TECH,
         "Generated BMS/BME/PMS texts for each of the five layouts (shift_jis headers with double-byte characters whose trail byte is 0x5C/0x7C, #WAV / #BPMxx tables, data lines in shuffled order, several lines for one measure and channel, subdivisions 1..192 incl. 5ths/7ths/9ths, channel-03 and channel-08 tempo changes, #LNOBJ long notes, ignored channels, CRLF/LF) are installed and read through codecs.StreamReader over tiny buffers and short reads. Every visible object must become a hit - or, when closed by the #LNOBJ marker, a hold whose head is the preceding object of that lane in time - in the lane's column at the millisecond position of exact rational integration, with the #WAV sample of its id; title, artist, level, #LNOBJ, extended tempos, samples and other headers must be retained. Injected read errors may only make the call raise.", "§5 C04"),
 "C05": (FILE_TECH,
         "BMS charts built in beat space (tempo points on measure lines, objects on and off the snap grid at least 1/48 beat apart per lane, long notes, known and unknown samples, every layout, up to 1000 tempo points = the last measure number the format has), read from generated files, or rated, are written through the binary stream seam (short writes, stale longer file, ENOSPC/EIO/close errors). The bytes must parse line by line, conserve the object count (one per hit, head + #LNOBJ per hold), keep lanes, place objects exactly when on the snap grid and within 1/192 beat otherwise, and reproduce the in-memory tempo timeline segment by segment.", "§5 C05"),
 "C02": (FILE_TECH,
         "Generated .sm texts (1-4 charts of every supported chart type, measures of 4..192 rows incl. 20/28/36, symbols 1 2 3 4 M L F K with well-paired holds and rolls, comment lines, blank lines, 1-6 #BPMS entries on measure lines and on the 1/8-beat grid, any #OFFSET sign, #STOPS absent or empty, CRLF/LF) are installed in the simulated file system and read through tiny buffers, short reads and platform defaults; every chart must come back with its header fields and every object in the column and at the millisecond position (and hold length) obtained by exact rational integration of the file's beats over its #BPMS segments from -#OFFSET, within 1e-6*(1+|t|) ms, and every tempo change of the file must be present at its millisecond position. Injected read errors may only make the call raise; a second file read in the same session must not be influenced by the first.", "§5 C02"),
 "C03": (FILE_TECH,
         "Mapsets reach write_file through histories (built on the snap grid in beat space with tempo changes on and off measure lines, read from generated files, converted from osu/Quaver/BMS/O2Jam charts, rated). The written text must be accepted by the reference MSD/.sm parser (every value inside a #TAG:...; , rows as wide as the chart's key count, well-paired holds), denote the same charts, objects and columns with times exact (tempo changes on measure lines) or within 1/96 beat at the local tempo, carry the header fields unchanged, and read back / write again without drift; under tiny buffers, short writes, CRLF platforms, stale longer destination files; injected write errors may only make the call raise and leave the mapset untouched.", "§5 C03"),
 "C06": (FILE_TECH,
         "Generated .qua documents (lanes 1..8, omitted StartTime/Multiplier/Bpm/KeySounds keys, empty sections, hits only, holds only, metadata strings that need YAML quoting, escaped or raw non-ASCII, flow/block style, CRLF) are installed and read; native charts and charts produced by every *ToQua converter from history-made sources are written, read back and written again. A normal return must agree with the reference interpretation: reads exact with the format defaults, written documents load with safe_load, use only the format's keys and value types (no NaN, integer lanes >= 1, list KeySounds) and denote the chart within 1 ms; generations do not drift; injected device errors may only make the call raise.", "§5 C06"),
 "C01": (FILE_TECH,
         "Generated v14 mania texts (key counts 1..18, x on both edges of a column, negative/large times, every hitsound field, values with ':' and non-ASCII, CRLF/LF) are installed in the simulated file system and read; charts built through histories are written, read back and written again. Whenever read_file/write_file returns normally the result must equal the reference interpretation of the bytes (reads exact, writes < 1 ms, later generations identical to the first), whatever the device did (1-byte buffers, short counts, cp1252/cp932 platform defaults, stale longer file); injected EIO/ENOSPC/close errors may only make the call raise, leave every chart untouched, and the retried call must succeed.", "§5 C01"),
 "C16": ("model-based session simulation: seeded op histories over aliased list handles, per-step refinement against a plain-sequence model",
         "Every list operation in a seeded session (constructors, len/index/slice/mask/iterate, first/last offset, sorted, append in four operand forms, after/before/between with all flags and hold head/tail variants) is compared step by step with the same operation on a plain Python sequence of the rows, on list states that only histories produce (gap/permuted/duplicate labels, views, int/float/object dtypes), for all 28 list classes.", "§5 C16"),
 "C14": ("deterministic session simulation with whole-world frame invariants (I1/I2) over alias classes",
         "After every non-mutating operation the snapshot (values, column names/order, dtypes, row labels, metadata) of EVERY live handle must be unchanged; after every mutating operation every handle outside the target's alias class must be unchanged, which decides 'results documented as copies share no mutable state' when the scheduler later edits results.", "§5 C14"),
 "C12": ("session simulation of stacker histories against a per-list assignment model",
         "Sequences of whole-column and conditional stack assignments through fresh stackers (several alive at once, type-restricted, mapset stackers, re-stacking) are compared after every assignment with 'the same assignment applied to each list separately' on plain rows; lengths, order, classes, columns, other lists and metadata must be untouched.", "§5 C12"),
 "C08": ("session simulation: source charts driven through histories, then every converter judged against a row-copy model",
         "All 16 converters and convert_merge run on sources in history-made states (read/built/filtered/sorted/appended/stacked/rated/deep-copied); result rows, declared fields, no-missing-values, chart count, metadata slots are compared with the source's plain rows; frame invariants keep the source untouched now and after the result is edited.", "§5 C08"),
 "C15": ("simulation of row-delivery histories: twin charts (same rows, scheduler-chosen delivery order) through one operation, confluence of denotations",
         "The same multiset of rows is delivered into two charts in different orders through the construction histories the property names (unsorted construction, append one at a time, reverse sort, concatenation of parts); one operation (rate, each converter, full_ln, hitsound_copy, dominant_bpm, scroll_speed, sv_normalize, each writer) is applied to both and the denotations of the results must agree. No reference implementation of the operation is used.", "§5 C15"),
 "C13": ("session simulation: rate on history-made charts against an exact arithmetic model, shared-state frame checks, write seam",
         "rate(r) results are compared field by field with offsets/lengths divided and bpms multiplied (IEEE-exact, 1e-12 relative), all other fields and metadata equal, file-level osu/StepMania time fields scaled; originals are frame-checked now and after later edits of the copy; composition/identity follow per step.", "§5 C13"),
}

NA = {
 "C10": "pure function of its arguments (tempo list, queries): no stream, shared handle, schedule, fault or history for a simulator to own (DESIGN §3, §6)",
 "C11": "pure list -> list function on a deep copy of its argument; quantifier is inputs only (DESIGN §6)",
 "C17": "pure Map -> Map on a deep copy; its non-interference and order-independence are decided under C14/C15, the gap rule itself has no simulation dimension (DESIGN §6)",
 "C18": "pure (OsuMap, OsuMap) -> OsuMap; input preservation is decided under C14 (DESIGN §6)",
 "C19": "pure functions of the chart; mutation of the tempo list is C14's, row-order dependence C15's (DESIGN §6)",
 "C20": "pure functions of note arrays and options (DESIGN §6)",
}
PENDING = {}

def main():
    import sys
    sys.path.insert(0, HERE)
    from sim.scenarios import SCENARIOS
    checks = []
    for pid in sorted(CLAIMED):
        if pid not in SCENARIOS:
            PENDING[pid] = "check under construction in this round (scenario not registered yet)"
            continue
        tech, text, ref = CLAIMED[pid]
        checks.append(dict(
            property_id=pid,
            quick_cmd=f"./check {pid} --tier quick",
            thorough_cmd=f"./check {pid} --tier thorough",
            evidence_file=f"/verif/evidence/{pid}.json",
            replay_cmd_template="./check --replay {path}",
            engine="session-simulator",
            level_claimed=dict(category="exploration", text=text, design_ref=ref),
            level_note=TB,
            technique="deterministic simulation with fault injection: " + tech,
        ))
    all_ids = [f"C{i:02d}" for i in range(1, 21)]
    na = [dict(property_id=k, reason=v) for k, v in sorted(NA.items())]
    for pid in all_ids:
        if pid not in NA and pid not in [c["property_id"] for c in checks]:
            na.append(dict(property_id=pid, reason="not claimed yet: " + PENDING.get(pid, "check under construction (DESIGN §10 build order)")))
    doc = dict(
        version=1,
        setup_cmd="/venv/bin/python /verif/tools/setup_check.py",
        hooks=dict(guard="REAMBERPY_VERIF", enable="no source hooks: every seam is reached by module-attribute patching (open / codecs_open) from outside; the guard name is reserved and unused",
                   baseline_off_cmd="cd /repo && /venv/bin/python -m pytest -ra -q -p no:cacheprovider --timeout=900 --continue-on-collection-errors",
                   source_commits=[], add_only=True),
        engines=[dict(name="session-simulator", path="/verif/sim", serves_properties=[c["property_id"] for c in checks],
                      kind_free_text="deterministic session simulator (every session in its own process forked from a pristine pre-imported worker): seeded op/fault generator -> materialised op list -> executor over real reamber + SimFS (real io/codecs stack over a stub raw device) -> reference model + frame invariants -> ddmin -> fresh-interpreter replay")],
        checks=checks,
        notes="Exit codes: 0 held / 1 VIOLATION / 2 harness error (never a VIOLATION line). Known findings: /verif/known_findings.json. VERIF_SEED, VERIF_TIER, VERIF_SESSIONS, VERIF_JOBS honoured. VERIF_REPO=<dir> runs the same checks against another checkout (used for seeded mutants).",
        not_applicable=na,
    )
    with open(os.path.join(HERE, "MANIFEST.json"), "w") as f:
        json.dump(doc, f, indent=1)
    import jsonschema
    jsonschema.validate(doc, json.load(open("/root/.vp/MANIFEST.schema.json")))
    print("MANIFEST.json ok:", [c["property_id"] for c in checks], "n/a:", [n["property_id"] for n in na])

main()
