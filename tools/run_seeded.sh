#!/bin/sh
# tools/run_seeded.sh <seeded-name> <props...>: apply /verif/seeded/<name>/patch.diff in a scratch worktree and run quick checks against it
NAME=$1; shift; W=/var/tmp/seed_run_$$
git -C /repo worktree add --detach -q "$W" main || exit 2
trap 'git -C /repo worktree remove --force "$W" >/dev/null 2>&1' EXIT
git -C "$W" apply /verif/seeded/$NAME/patch.diff || { echo "PATCH DOES NOT APPLY"; exit 3; }
for q in "$@"; do
  (cd /verif && VERIF_REPO=$W ./check "$q" --tier quick --no-evidence 2>&1 | grep -A1 -E "^VIOLATION|^OK|^HARNESS" | cut -c1-330 | head -4)
done
