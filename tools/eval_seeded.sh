#!/bin/sh
# tools/eval_seeded.sh <Cxx> <name> [props-to-run...]: confirm a sub-agent's change in a fresh scratch worktree, then run checks against it
P=$1; NAME=$2; shift 2; PROPS="${*:-$P}"
SRC=${SEED_SRC:-/tmp/agents}/wt_$P; DST=/verif/seeded/$NAME; W=/var/tmp/seed_eval_$$
mkdir -p "$DST"; cp "$SRC/patch.diff" "$SRC/meta.json" "$DST/" 2>/dev/null; cp "$SRC"/demo*.py "$DST/" 2>/dev/null
git -C /repo worktree add --detach -q "$W" main || exit 2
trap 'git -C /repo worktree remove --force "$W" >/dev/null 2>&1' EXIT
cd "$W" || exit 2
cp "$DST"/demo*.py .
PYTHONPATH=$W /venv/bin/python demo.py >/dev/null 2>&1; echo "demo without change: exit $? (want 0)"
git apply "$DST/patch.diff" || { echo "PATCH DOES NOT APPLY"; exit 3; }
git diff --stat | tail -1
PYTHONPATH=$W /venv/bin/python demo.py > "$DST/demo_with_change.out" 2>&1; echo "demo with change: exit $? (want 1)"; tail -3 "$DST/demo_with_change.out"
PYTHONPATH=$W /venv/bin/python -m pytest -q -p no:cacheprovider --timeout=900 --continue-on-collection-errors tests 2>&1 | tail -1
for q in $PROPS; do
  (cd /verif && VERIF_REPO=$W ./check "$q" --tier quick --no-evidence 2>&1 | grep -A1 -E "^VIOLATION|^OK|^HARNESS" | cut -c1-400 | head -6)
done
