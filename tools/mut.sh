#!/bin/sh
# tools/mut.sh <prop> <sessions> <file> <sed-expr>: apply a one-line mutant in the scratch worktree /var/tmp/mut and run a check against it
P=$1; N=$2; F=$3; E=$4
cd /var/tmp/mut || exit 2
git reset -q --hard HEAD; git checkout -q --detach main
sed -i "$E" "$F"
if git diff --quiet; then echo "MUTANT DID NOT APPLY: $F $E"; exit 3; fi
git diff | grep '^[-+][^-+]' | head -4
(cd /verif && VERIF_REPO=/var/tmp/mut ./check "$P" --sessions "$N" --no-evidence 2>&1 | grep -A1 -E "VIOLATION|^OK|HARNESS" | head -6)
git reset -q --hard HEAD; git checkout -q --detach main
