#!/venv/bin/python
"""Validate the reference interpreters against the bundled fixtures: the library
and the reference must agree on real files (run before trusting an oracle)."""
import glob, os, sys, warnings
warnings.filterwarnings("ignore")
HERE = os.path.dirname(os.path.dirname(os.path.realpath(__file__)))
sys.path.insert(0, HERE); sys.path.insert(0, os.environ.get("VERIF_REPO", "/repo"))
import logging; logging.disable(logging.CRITICAL)
from sim.ops.files import IO
REPO = os.environ.get("VERIF_REPO", "/repo")

def check(game, pattern, layout=None):
    g = IO[game]; bad = 0
    for p in sorted(glob.glob(os.path.join(REPO, "rsc/maps", pattern))):
        data = open(p, "rb").read()
        try:
            den = g.parse(data, layout)
            obj = g.read(p, layout)
            ms = g.cmp_read(den, g.alpha(obj), layout)
        except Exception as e:
            ms = [f"{type(e).__name__}: {e}"]
        legacy = game == "osu" and not data.startswith(b"osu file format v14")
        print(("ok  " if not ms else ("diff (legacy dialect, not judged)" if legacy else "DIFF")), game, os.path.basename(p), (ms[0][:300] if ms else ""))
        bad += bool(ms) and not legacy
    return bad

if __name__ == "__main__":
    which = sys.argv[1:] or ["osu"]
    bad = 0
    if "osu" in which: bad += check("osu", "osu/*.osu")
    if "qua" in which: bad += check("qua", "qua/*.qua")
    if "sm" in which: bad += check("sm", "sm/*.sm")
    if "bms" in which: bad += check("bms", "bms/*.b*")
    if "o2j" in which: bad += check("o2j", "o2jam/*.ojn")
    sys.exit(1 if bad else 0)
