"""Find ops whose wall time is large (load-dependent time-outs are a false-alarm risk): runs N sessions per property with
per-op timing and prints the slowest."""
import os, sys, time
os.environ.setdefault("PYTHONHASHSEED", "0")
sys.path.insert(0, "/verif"); sys.path.insert(0, os.environ.get("VERIF_REPO", "/repo"))
import warnings; warnings.filterwarnings("ignore")
import logging; logging.disable(logging.CRITICAL)
from concurrent.futures import ProcessPoolExecutor
import multiprocessing as mp


def work(args):
    prop, seeds = args
    from sim import session as S, engine as E
    rows = []
    orig = E.Session.exec_op
    cur = {}

    def ex(self, spec):
        t = time.time()
        try:
            return orig(self, spec)
        finally:
            rows.append((round(time.time() - t, 2), prop, cur["seed"], spec.get("id"), spec.get("op"), spec.get("game") or spec.get("conv")))
    E.Session.exec_op = ex
    for s in seeds:
        cur["seed"] = s
        try:
            S.generate_and_run(prop, s, "quick")
        except Exception as e:
            rows.append((999, prop, s, "EXC", repr(e)[:100], None))
    rows.sort(reverse=True)
    return rows[:5]


if __name__ == "__main__":
    n = int(sys.argv[1]) if len(sys.argv) > 1 else 400
    base = int(sys.argv[2]) if len(sys.argv) > 2 else 5000
    props = sys.argv[3:] or ["C01", "C02", "C03", "C04", "C05", "C06", "C07", "C08", "C09", "C12", "C13", "C14", "C15", "C16"]
    from sim.rng import session_seed
    jobs = []
    for p in props:
        seeds = [session_seed(base, p, i) for i in range(n)]
        for k in range(0, n, 50):
            jobs.append((p, seeds[k:k + 50]))
    allrows = []
    with ProcessPoolExecutor(16, mp_context=mp.get_context("fork")) as ex:
        for r in ex.map(work, jobs):
            allrows += r
    allrows.sort(reverse=True)
    for r in allrows[:40]:
        print(r)
