#!/venv/bin/python
"""Offline setup self-check: everything the checks need is importable from disk."""
import os, sys, warnings
warnings.filterwarnings("ignore")
sys.path.insert(0, os.path.dirname(os.path.dirname(os.path.realpath(__file__))))
sys.path.insert(0, os.environ.get("VERIF_REPO", "/repo"))
import pandas, numpy, yaml, unidecode  # noqa
import reamber  # noqa
assert os.path.realpath(reamber.__file__).startswith(os.path.realpath(os.environ.get("VERIF_REPO", "/repo"))), reamber.__file__
from sim import ops, scenarios, simfs, session  # noqa
print("setup ok: reamber from", os.path.dirname(reamber.__file__), "pandas", pandas.__version__, "ops", len(ops.REGISTRY))
